#!/bin/bash
# seedsweep.sh [budget_s]: run the quick check of the broken property against every kept seeded change
# (scratch worktrees; never touches /repo). Prints one line per seed: CAUGHT / MISSED.
B="${1:-12}"
cd /verif
for d in /verif/seeded/*/; do
  n=$(basename "$d")
  p=$(python3 -c "import json;print(json.load(open('$d/meta.json'))['breaks_property'])")
  if [ "$p" = "C20" ] && { [ "$n" = "C20b-did-signbytes-shared-scratch" ] || [ "$n" = "C20y-keytype-warn-once-map" ]; }; then
    out=$(/verif/mutrace.sh "$d/patch.diff" 2>&1); if echo "$out" | grep -q "^VIOLATION property=C20"; then echo "CAUGHT $n by C20 (race build)"; else echo "MISSED $n"; fi; continue
  fi
  out=$(VERIF_KS_QUICK_S=12 ./mutcheck.sh "$d/patch.diff" "$B" "$p" 2>&1)
  if echo "$out" | grep -q "^VIOLATION property=$p\|^violation: property=$p"; then echo "CAUGHT $n by $p: $(echo "$out" | grep -m1 '^violation' | cut -c1-120)"; else echo "MISSED $n ($p): $(echo "$out" | grep -E 'exit=|MACHINERY' | head -2 | tr '\n' ' ')"; fi
done
