#!/bin/bash
# seedsweep.sh [budget_s] [stream] [streams]: run the quick check of the property that catches it against every kept
# seeded change (scratch worktrees; never touches /repo). Prints one line per seed: CAUGHT / MISSED.
# With stream/streams only every streams-th seed is taken (run several streams side by side).
B="${1:-12}"; S="${2:-0}"; N="${3:-1}"
cd /verif
i=-1
for d in /verif/seeded/*/; do
  i=$((i+1)); [ $((i % N)) -eq "$S" ] || continue
  n=$(basename "$d")
  p=$(python3 -c "import json;m=json.load(open('$d/meta.json'));c=m.get('caught_by_checks') or [];b=m['breaks_property'];print(b if (b in c or not c) else c[0])")
  case "$n" in C20b-*|C20y-*|C20h-*|C20l-*)
    out=$(/verif/mutrace.sh "$d/patch.diff" 2>&1); if echo "$out" | grep -q "^VIOLATION property=C20"; then echo "CAUGHT $n by C20 (race build)"; else echo "MISSED $n"; fi; continue;;
  esac
  out=$(VERIF_MINIMISE_S=1 VERIF_KS_QUICK_S=12 ./mutcheck.sh "$d/patch.diff" "$B" "$p" 2>&1)
  if echo "$out" | grep -q "^VIOLATION property=$p\|^violation: property=$p"; then echo "CAUGHT $n by $p: $(echo "$out" | grep -m1 '^violation' | cut -c1-120)"; else echo "MISSED $n ($p): $(echo "$out" | grep -E 'exit=|MACHINERY' | head -2 | tr '\n' ' ')"; fi
done
