#!/bin/bash
# Build /verif/bin/panasim from /verif/sim against /repo's current working tree (hooks on: -tags verif).
# Usage: build.sh [race]
# Exit 0 on success, 2 on build trouble (never 1: exit 1 is reserved for VIOLATION).
set -u
export GOFLAGS=-mod=mod GOPROXY=off GOSUMDB=off GOTOOLCHAIN=local CGO_ENABLED=1
HERE="$(cd "$(dirname "$0")" && pwd)"
SIM="$HERE/sim"
mkdir -p "$HERE/bin"
gen_mod() {
  # go.mod = /repo/go.mod with module line replaced, + replace of panacea-core to /repo, + extra requires
  local tmp="$SIM/go.mod.new"
  {
    echo "module panasim"
    echo
    echo "go 1.22"
    echo
    echo "require github.com/medibloc/panacea-core/v2 v2.0.0"
    echo "require github.com/anishathalye/porcupine v1.3.0"
    echo
    echo "replace github.com/medibloc/panacea-core/v2 => /repo"
    echo
    # copy require/replace blocks of /repo/go.mod verbatim (skip module and go/toolchain lines)
    sed -e '/^module /d' -e '/^go [0-9]/d' -e '/^toolchain /d' /repo/go.mod
  } > "$tmp"
  if ! cmp -s "$tmp" "$SIM/go.mod"; then mv "$tmp" "$SIM/go.mod"; else rm -f "$tmp"; fi
  # go.sum = /repo/go.sum + extra lines kept in go.sum.extra
  cat /repo/go.sum "$SIM/go.sum.extra" 2>/dev/null | sort -u > "$SIM/go.sum.new"
  if ! cmp -s "$SIM/go.sum.new" "$SIM/go.sum"; then mv "$SIM/go.sum.new" "$SIM/go.sum"; else rm -f "$SIM/go.sum.new"; fi
}
gen_mod
cd "$SIM" || exit 2
if [ "${1:-}" = race ]; then
  go build -tags verif -race -o "$HERE/bin/panasim-race" . >"$HERE/bin/build-race.log" 2>&1 || { cat "$HERE/bin/build-race.log"; echo "BUILD-FAILED (race)"; exit 2; }
else
  go build -tags verif -o "$HERE/bin/panasim" . >"$HERE/bin/build.log" 2>&1 || { cat "$HERE/bin/build.log"; echo "BUILD-FAILED"; exit 2; }
fi
exit 0
