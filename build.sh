#!/bin/bash
# Build /verif/bin/panasim from /verif/sim against /repo's current working tree (hooks on: -tags verif).
# Usage: build.sh [race]
# Exit 0 on success, 2 on build trouble (never 1: exit 1 is reserved for VIOLATION).
set -u
export GOFLAGS=-mod=mod GOPROXY=off GOSUMDB=off GOTOOLCHAIN=local CGO_ENABLED=1
HERE="$(cd "$(dirname "$0")" && pwd)"
SIM="$HERE/sim"
# PANASIM_REPO / PANASIM_OUT: build against a scratch worktree of the repository (used only when testing
# the machinery against seeded changes); the registered checks always build against /repo.
REPO="${PANASIM_REPO:-/repo}"
OUTDIR="${PANASIM_OUT:-$HERE/bin}"
MODDIR="$SIM"
if [ "$REPO" != "/repo" ]; then MODDIR="$OUTDIR/mod"; mkdir -p "$MODDIR"; fi
mkdir -p "$OUTDIR"
gen_mod() {
  # go.mod = /repo/go.mod with module line replaced, + replace of panacea-core to /repo, + extra requires
  local tmp="$MODDIR/go.mod.new"
  {
    echo "module panasim"
    echo
    echo "go 1.22"
    echo
    echo "require github.com/medibloc/panacea-core/v2 v2.0.0"
    echo "require github.com/anishathalye/porcupine v1.3.0"
    echo
    echo "replace github.com/medibloc/panacea-core/v2 => $REPO"
    echo
    # copy require/replace blocks of /repo/go.mod verbatim (skip module and go/toolchain lines)
    sed -e '/^module /d' -e '/^go [0-9]/d' -e '/^toolchain /d' "$REPO/go.mod"
  } > "$tmp"
  if ! cmp -s "$tmp" "$MODDIR/go.mod"; then mv "$tmp" "$MODDIR/go.mod"; else rm -f "$tmp"; fi
  # go.sum = /repo/go.sum + extra lines kept in go.sum.extra
  cat "$REPO/go.sum" "$SIM/go.sum.extra" 2>/dev/null | sort -u > "$MODDIR/go.sum.new"
  if ! cmp -s "$MODDIR/go.sum.new" "$MODDIR/go.sum"; then mv "$MODDIR/go.sum.new" "$MODDIR/go.sum"; else rm -f "$MODDIR/go.sum.new"; fi
}
gen_mod
cd "$SIM" || exit 2
if [ "${1:-}" = race ]; then
  go build -modfile="$MODDIR/go.mod" -tags verif -race -o "$OUTDIR/panasim-race" . >"$OUTDIR/build-race.log" 2>&1 || { cat "$OUTDIR/build-race.log"; echo "BUILD-FAILED (race)"; exit 2; }
else
  go build -modfile="$MODDIR/go.mod" -tags verif -o "$OUTDIR/panasim" . >"$OUTDIR/build.log" 2>&1 || { cat "$OUTDIR/build.log"; echo "BUILD-FAILED"; exit 2; }
fi
exit 0
