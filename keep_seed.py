#!/usr/bin/env python3
# keep_seed.py <name> <outdir> <property> <pkgdir> <run-regex> <caught-by (comma list or 'none')> <needs...>
import sys, os, shutil, json, glob
name, outdir, prop, pkg, run, caught = sys.argv[1:7]
needs = ' '.join(sys.argv[7:])
dst = '/verif/seeded/' + name
os.makedirs(dst, exist_ok=True)
for f in glob.glob(outdir + '/*'):
    if os.path.isfile(f):
        shutil.copy(f, dst)
demo = [os.path.basename(f) for f in glob.glob(outdir + '/*_test.go')]
meta = {
  "breaks_property": prop,
  "needs_to_manifest": needs,
  "demonstration": {"file": demo[0] if demo else None, "package_dir": pkg, "run": run},
  "confirmed_by": "confirm_seed.sh: scratch worktree of /repo HEAD; `go build ./...` ok; existing suite passes with the change; demo fails with it and passes without it",
  "checked_with": "mutcheck.sh (scratch worktree, quick tier, reduced budget)",
  "caught_by_checks": [] if caught == 'none' else caught.split(','),
  "origin": "independent sub-agent given only the property text and a scratch worktree",
}
json.dump(meta, open(dst + '/meta.json', 'w'), indent=1)
print('kept', dst, os.listdir(dst))
