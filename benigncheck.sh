#!/bin/bash
# benigncheck.sh <patch> [budget_s]: a property-PRESERVING change must leave every check quiet.
# Scratch worktree, apply, build (also -race), run the quick tier of every claimed property; prints the alarms.
set -u
export GOFLAGS=-mod=mod GOPROXY=off GOSUMDB=off GOTOOLCHAIN=local
PATCH="$1"; B="${2:-20}"
WT=$(mktemp -d /tmp/benwt.XXXXXX)
git -C /repo worktree add --detach "$WT/repo" HEAD >/dev/null 2>&1 || { echo "worktree failed"; exit 2; }
trap 'git -C /repo worktree remove --force "$WT/repo" >/dev/null 2>&1; rm -rf "$WT"' EXIT
git -C "$WT/repo" apply "$PATCH" || { echo "apply failed"; exit 2; }
( cd "$WT/repo" && go build ./... ) || { echo "repo does not build"; exit 2; }
PANASIM_REPO="$WT/repo" PANASIM_OUT="$WT/bin" /verif/build.sh || exit 2
PANASIM_REPO="$WT/repo" PANASIM_OUT="$WT/bin" /verif/build.sh race || exit 2
rc=0
for P in C01 C02 C03 C04 C05 C06 C07 C08 C09 C10 C11 C12 C13 C14 C15 C16 C17 C19 C20; do
  out=$(PANASIM_OUTPUT_DIR="$WT/out" VERIF_QUICK_S="$B" VERIF_KS_QUICK_S=10 VERIF_RACE_QUICK_S=12 VERIF_MINIMISE_S=1 "$WT/bin/panasim" check "$P" quick 2>&1)
  code=$?
  if [ $code -ne 0 ]; then rc=1; echo "ALARM $P exit=$code: $(echo "$out" | grep -E '^violation|MACHINERY' | head -2 | cut -c1-400)"; else echo "quiet $P $(echo "$out" | grep -E '^runs=' | tail -1)"; fi
done
exit $rc
