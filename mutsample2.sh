#!/bin/bash
# mutsample.sh <stride> <offset> [budget_s]: classic single-site mutation sampling of the custom modules.
# Every <stride>-th mutation site (starting at <offset>) of the non-test, non-generated sources is applied in a scratch
# worktree; mutants that still build AND pass the whole existing test suite are run through the quick checks of the
# properties anchored in that code. One TSV line per mutant on stdout: verdict, site, properties/classes.
# Never touches /repo. Survivors need reading: many single-site mutants are equivalent or break no listed property.
set -u
export GOFLAGS=-mod=mod GOPROXY=off GOSUMDB=off GOTOOLCHAIN=local
STRIDE="${1:-6}"; OFF="${2:-0}"; B="${3:-12}"
MG=$(mktemp -d /tmp/mutgen.XXXXXX)
( cd /verif/tools/mutgen && go build -o "$MG/mutgen" . ) || exit 2
WT=$(mktemp -d /tmp/mutsample.XXXXXX)
git -C /repo worktree add --detach "$WT/repo" HEAD >/dev/null 2>&1 || exit 2
trap 'git -C /repo worktree remove --force "$WT/repo" >/dev/null 2>&1; rm -rf "$WT" "$MG"' EXIT
cd "$WT/repo"
props_for() {
  case "$1" in
    x/aol/*) echo "C01 C02 C13 C16 C08" ;;
    x/did/client/crypto/*) echo "C20 C17" ;;
    x/did/*) echo "C03 C04 C05 C11 C16 C08" ;;
    x/pnft/*) echo "C06 C12 C16 C08" ;;
    x/burn/*) echo "C07 C17 C08" ;;
    types/compkey/*) echo "C01 C13 C17" ;;
    *) echo "C09 C10" ;;
  esac
}
k=0
for f in $(find x/aol x/did x/pnft x/burn types/compkey -name "*.go" ! -name "*_test.go" ! -name "*.pb.go" ! -name "*.pb.gw.go" ! -path "*/client/cli/*" ! -name "simhook*" | sort); do
  n=$("$MG/mutgen" -list "$f" 2>/dev/null); n=${n:-0}
  for ((i=0; i<n; i++)); do
    k=$((k+1))
    [ $(( (k + OFF) % STRIDE )) -eq 0 ] || continue
    cp "$f" "$WT/orig.go"
    desc=$("$MG/mutgen" -apply $i "$WT/orig.go" 2>&1 >"$f" | sed "s#$WT/orig.go#$f#")
    if ! go build ./... >/dev/null 2>&1; then echo -e "UNCOMPILABLE\t$desc"; cp "$WT/orig.go" "$f"; continue; fi
    if ! go test -vet=off -count=1 ./... >"$WT/suite.log" 2>&1; then echo -e "KILLED-BY-TESTS\t$desc"; cp "$WT/orig.go" "$f"; git checkout go.sum 2>/dev/null; continue; fi
    git checkout go.sum 2>/dev/null
    if ! PANASIM_REPO="$WT/repo" PANASIM_OUT="$WT/bin" /verif/build.sh >/dev/null 2>&1; then echo -e "SIM-BUILD-FAILED\t$desc"; cp "$WT/orig.go" "$f"; continue; fi
    res=""
    for P in $(props_for "$f"); do
      out=$(PANASIM_SKIP_RACE=1 PANASIM_OUTPUT_DIR="$WT/out" VERIF_QUICK_S="$B" VERIF_KS_QUICK_S=8 VERIF_MINIMISE_S=1 "$WT/bin/panasim" check "$P" quick 2>&1)
      c=$(echo "$out" | grep -m1 "^violation: property=$P" | sed -E 's/^violation: property=[A-Z0-9]+ class=([^ ]+).*/\1/')
      [ -n "$c" ] && res="$res $P:$c"
      rm -rf "$WT/out"
    done
    if [ -n "$res" ]; then echo -e "CAUGHT\t$desc\t$res\tsite=$i"; else echo -e "SURVIVED\t$desc\t(checked: $(props_for "$f"))\tsite=$i"; fi
    cp "$WT/orig.go" "$f"
  done
done
