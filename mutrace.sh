#!/bin/bash
# like mutcheck but also builds the race binary
export GOFLAGS=-mod=mod GOPROXY=off GOSUMDB=off GOTOOLCHAIN=local
PATCH="$1"; shift
WT=$(mktemp -d /tmp/mutwt.XXXXXX)
git -C /repo worktree add --detach "$WT/repo" HEAD >/dev/null 2>&1
trap 'git -C /repo worktree remove --force "$WT/repo" >/dev/null 2>&1; rm -rf "$WT"' EXIT
git -C "$WT/repo" apply "$PATCH" || exit 2
PANASIM_REPO="$WT/repo" PANASIM_OUT="$WT/bin" /verif/build.sh || exit 2
PANASIM_REPO="$WT/repo" PANASIM_OUT="$WT/bin" /verif/build.sh race || exit 2
PANASIM_OUTPUT_DIR="$WT/out" VERIF_QUICK_S=4 VERIF_KS_QUICK_S=4 VERIF_RACE_QUICK_S=15 "$WT/bin/panasim" check C20 quick 2>&1 | grep -E "^violation|^VIOLATION|^runs|race sub|MACHINERY" | cut -c1-400
