#!/bin/bash
# confirm_seed.sh <patch.diff> <demo_test.go> <package dir inside repo> <go test -run regex>
# Confirms a seeded change in a scratch worktree: builds, existing suite passes with it, the demonstration fails with
# it and passes without it. Prints CONFIRMED or the reason. Leaves nothing behind.
set -u
export GOFLAGS=-mod=mod GOPROXY=off GOSUMDB=off GOTOOLCHAIN=local
PATCH="$1"; DEMO="$2"; PKG="$3"; RUN="$4"
WT=$(mktemp -d /tmp/seedwt.XXXXXX)
git -C /repo worktree add --detach "$WT/repo" HEAD >/dev/null 2>&1 || { echo "worktree failed"; exit 2; }
trap 'git -C /repo worktree remove --force "$WT/repo" >/dev/null 2>&1; rm -rf "$WT"' EXIT
cd "$WT/repo"
mkdir -p "$PKG"; cp "$DEMO" "$PKG/" || { echo "cannot place demo"; exit 2; }
DEMOBASE=$(basename "$DEMO")
# without the change: demo passes
if ! go test -vet=off -count=1 -run "$RUN" "./$PKG/" >"$WT/nochange.log" 2>&1; then echo "NOT-CONFIRMED: demo fails WITHOUT the change"; tail -15 "$WT/nochange.log"; exit 1; fi
git apply "$PATCH" || { echo "NOT-CONFIRMED: patch does not apply"; exit 1; }
go build ./... >"$WT/build.log" 2>&1 || { echo "NOT-CONFIRMED: does not build"; tail "$WT/build.log"; exit 1; }
# with the change: demo fails
if go test -vet=off -count=1 -run "$RUN" "./$PKG/" >"$WT/change.log" 2>&1; then echo "NOT-CONFIRMED: demo passes WITH the change"; exit 1; fi
grep -E "^(--- FAIL|FAIL|panic)" "$WT/change.log" | head -3
# existing suite (demo removed) passes with the change
rm -f "$PKG/$DEMOBASE"
if ! go test -vet=off -count=1 ./... >"$WT/suite.log" 2>&1; then echo "NOT-CONFIRMED: existing suite fails with the change"; grep -E "FAIL" "$WT/suite.log" | head; exit 1; fi
echo "CONFIRMED: builds; existing suite passes with the change; demo fails with it and passes without it"
