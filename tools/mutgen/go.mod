module mutgen

go 1.21
