// mutgen: single-site source mutations for sampling the sensitivity of the checks (classic mutation operators).
//   mutgen -list file.go            prints the number of mutation sites
//   mutgen -apply N file.go         prints the file with site N mutated, and a one-line description on stderr
package main

import (
	"flag"
	"fmt"
	"go/ast"
	"go/parser"
	"go/printer"
	"go/token"
	"os"
)

var swap = map[token.Token]token.Token{
	token.EQL: token.NEQ, token.NEQ: token.EQL,
	token.LSS: token.LEQ, token.LEQ: token.LSS,
	token.GTR: token.GEQ, token.GEQ: token.GTR,
	token.LAND: token.LOR, token.LOR: token.LAND,
	token.ADD: token.SUB, token.SUB: token.ADD,
}

func main() {
	list := flag.Bool("list", false, "count sites")
	apply := flag.Int("apply", -1, "apply site N")
	flag.Parse()
	file := flag.Arg(0)
	fset := token.NewFileSet()
	f, err := parser.ParseFile(fset, file, nil, parser.ParseComments)
	if err != nil {
		fmt.Fprintln(os.Stderr, err)
		os.Exit(2)
	}
	n := 0
	desc := ""
	hit := func(pos token.Pos, what string) bool {
		n++
		if n-1 == *apply {
			desc = fmt.Sprintf("%s:%d %s", file, fset.Position(pos).Line, what)
			return true
		}
		return false
	}
	ast.Inspect(f, func(node ast.Node) bool {
		switch x := node.(type) {
		case *ast.FuncDecl:
			// GetSignBytes/Route/Type/String boilerplate and generated-like helpers are still fair game; skip nothing
			_ = x
		case *ast.BinaryExpr:
			if to, ok := swap[x.Op]; ok {
				// string concatenation with + : skip SUB swap (would not compile)
				if x.Op == token.ADD {
					if bl, ok := x.X.(*ast.BasicLit); ok && bl.Kind == token.STRING {
						return true
					}
					if bl, ok := x.Y.(*ast.BasicLit); ok && bl.Kind == token.STRING {
						return true
					}
				}
				if hit(x.OpPos, fmt.Sprintf("%s -> %s", x.Op, to)) {
					x.Op = to
				}
			}
		case *ast.UnaryExpr:
			if x.Op == token.NOT {
				if hit(x.OpPos, "drop !") {
					// !e -> (e == true) keeps it an expression
					x.Op = token.ADD
					*x = ast.UnaryExpr{OpPos: x.OpPos, Op: token.NOT, X: &ast.UnaryExpr{Op: token.NOT, X: x.X}}
				}
			}
		case *ast.ReturnStmt:
			for i, r := range x.Results {
				if id, ok := r.(*ast.Ident); ok && (id.Name == "true" || id.Name == "false") {
					if hit(id.Pos(), "flip returned bool") {
						if id.Name == "true" {
							x.Results[i] = ast.NewIdent("false")
						} else {
							x.Results[i] = ast.NewIdent("true")
						}
					}
				}
			}
		case *ast.IfStmt:
			// if cond { return err... } -> if false && cond  (drops a guard)
			if x.Init == nil && x.Else == nil {
				if hit(x.If, "guard disabled") {
					x.Cond = &ast.BinaryExpr{X: ast.NewIdent("false"), Op: token.LAND, Y: &ast.ParenExpr{X: x.Cond}}
				}
			}
		}
		return true
	})
	if *list {
		fmt.Println(n)
		return
	}
	if desc == "" {
		fmt.Fprintln(os.Stderr, "no such site")
		os.Exit(2)
	}
	fmt.Fprintln(os.Stderr, desc)
	printer.Fprint(os.Stdout, fset, f)
}
