package main

// C19, configuration part: the ordered list of upgrade descriptors must account for every store the
// binary mounts. Static fold over app.Upgrades, plus a dynamic demonstration on the simulated disk.

import (
	"fmt"
	"os"
	"path/filepath"
	"sort"
	"strings"

	dbm "github.com/cometbft/cometbft-db"
	"github.com/cometbft/cometbft/libs/log"
	"github.com/cosmos/cosmos-sdk/baseapp"
	storetypes "github.com/cosmos/cosmos-sdk/store/types"
	simtestutil "github.com/cosmos/cosmos-sdk/testutil/sims"
	"github.com/medibloc/panacea-core/v2/app"
)

// legacyStores: the KV stores of the release that preceded the first descriptor (v2.0.5), a historical fact
// about the chain (its SDK v0.42 wiring): every module of that release that owned a store, including the two that the
// descriptors later delete.
var legacyStores = []string{"acc" /* x/auth's store key */, "bank", "capability", "distribution", "evidence", "gov", "mint", "params", "slashing", "staking",
	"upgrade", "ibc", "transfer", "aol", "did", "burn", "wasm", "token"}

type accountingProblem struct{ Class, Detail string }

func descriptorAccounting(mounted []string, ups []upgradeDesc) (final []string, probs []accountingProblem) {
	set := map[string]string{} // store -> "legacy" or the descriptor that added it
	for _, s := range legacyStores {
		set[s] = "legacy"
	}
	for _, u := range ups {
		for _, d := range u.Deleted {
			by, ok := set[d]
			if !ok {
				probs = append(probs, accountingProblem{"upgrade.descriptor.deletes_unknown_store", fmt.Sprintf("descriptor %s deletes store %q which does not exist at that point", u.Name, d)})
				continue
			}
			if by != "legacy" {
				probs = append(probs, accountingProblem{"upgrade.descriptor.added_then_deleted", fmt.Sprintf("store %q introduced by %s is removed again by %s", d, by, u.Name)})
			}
			delete(set, d)
		}
		for _, r := range u.Renamed {
			if _, ok := set[r[0]]; ok {
				delete(set, r[0])
				set[r[1]] = u.Name
			}
		}
		for _, a := range u.Added {
			if by, ok := set[a]; ok {
				probs = append(probs, accountingProblem{"upgrade.descriptor.adds_existing_store", fmt.Sprintf("descriptor %s adds store %q which already exists (from %s)", u.Name, a, by)})
				continue
			}
			set[a] = u.Name
		}
	}
	m := map[string]bool{}
	for _, s := range mounted {
		m[s] = true
		if _, ok := set[s]; !ok {
			probs = append(probs, accountingProblem{"upgrade.store_undeclared", fmt.Sprintf("the binary mounts store %q, which neither predates the first descriptor nor is introduced by any descriptor: a node upgrading through the releases meets an undeclared store", s)})
		}
	}
	for s, by := range set {
		final = append(final, s)
		if !m[s] {
			probs = append(probs, accountingProblem{"upgrade.store_not_mounted", fmt.Sprintf("store %q (from %s) is accounted for by the descriptors but not mounted by the binary", s, by)})
		}
	}
	sort.Strings(final)
	sort.Slice(probs, func(i, j int) bool { return probs[i].Detail < probs[j].Detail })
	return
}

type upgradeDesc struct {
	Name           string
	Added, Deleted []string
	Renamed        [][2]string
}

func readDescriptors() (mounted []string, ups []upgradeDesc) {
	ensureSDKConfig()
	tmp := app.New(log.NewNopLogger(), dbm.NewMemDB(), nil, true, simtestutil.AppOptionsMap{"home": os.TempDir()}, baseapp.SetChainID(ChainID))
	for name := range tmp.GetKVStoreKey() {
		mounted = append(mounted, name)
	}
	sort.Strings(mounted)
	for _, u := range app.Upgrades {
		d := upgradeDesc{Name: u.UpgradeName, Added: u.StoreUpgrades.Added, Deleted: u.StoreUpgrades.Deleted}
		for _, r := range u.StoreUpgrades.Renamed {
			d.Renamed = append(d.Renamed, [2]string{r.OldKey, r.NewKey})
		}
		ups = append(ups, d)
	}
	return
}

// descriptorPart: static accounting + dynamic demonstration of every undeclared store.
func descriptorPart(seed uint64, tier string, scratch string) (map[string]interface{}, int, int) {
	mounted, ups := readDescriptors()
	final, probs := descriptorAccounting(mounted, ups)
	cov := map[string]interface{}{"descriptor_accounting": map[string]interface{}{
		"mounted_stores": mounted, "legacy_baseline": legacyStores, "descriptors": ups, "folded_store_set": final, "problems": len(probs),
	}}
	if len(probs) == 0 {
		return cov, 0, 0
	}
	_ = os.MkdirAll(filepath.Join(outDir(), "replays"), 0o755)
	var b strings.Builder
	for _, p := range probs {
		b.WriteString(p.Class + ": " + p.Detail + "\n")
		if p.Class == "upgrade.store_undeclared" {
			b.WriteString("  demonstration: " + demonstrateUndeclaredStore(p.Detail, scratch) + "\n")
		}
	}
	path := filepath.Join(outDir(), "replays", "C19-descriptor-accounting.txt")
	_ = os.WriteFile(path, []byte(b.String()), 0o644)
	fmt.Printf("violation: property=C19 class=%s: %s\n", probs[0].Class, probs[0].Detail)
	fmt.Printf("VIOLATION property=C19 replay=%s\n", path)
	return cov, len(probs), 1
}

// demonstrateUndeclaredStore: build a chain with this binary, drop the undeclared store from the commit info of the last
// height (= the database an upgrading node would bring along, which never had that store), and restart this binary on
// it with the upgrade-info file of the latest descriptor: the node must fail to come up or diverge.
func demonstrateUndeclaredStore(detail string, scratch string) string {
	i := strings.Index(detail, `"`)
	j := strings.Index(detail[i+1:], `"`)
	if i < 0 || j < 0 {
		return "n/a"
	}
	store := detail[i+1 : i+1+j]
	env := NewEnv()
	s := &Script{Version: 1, Property: "C19", Seed: 1, Config: RunConfig{Replicas: []NodeCfg{{Pruning: "nothing"}}, EpilogueOff: true}, Steps: []Step{{K: "block"}, {K: "upgrade"}, {K: "block"}}}
	dir, _ := os.MkdirTemp(scratch, "c19demo")
	defer os.RemoveAll(dir)
	e := NewExec(s, env, dir, &KnownFindings{}, "")
	e.KeepApps = true
	e.Run()
	if len(e.Blocks) < 2 {
		return "could not build the pre-upgrade chain"
	}
	db := e.R[0].DB
	e.R[0].App = nil
	// rewrite the commit info of the latest version without the store
	latest := e.head()
	key := []byte(fmt.Sprintf("s/%d", latest))
	bz, err := db.Get(key)
	if err != nil || bz == nil {
		return "commit info not found"
	}
	var ci storetypes.CommitInfo
	if err := ci.Unmarshal(bz); err != nil {
		return "commit info undecodable"
	}
	var kept []storetypes.StoreInfo
	for _, si := range ci.StoreInfos {
		if si.Name != store {
			kept = append(kept, si)
		}
	}
	ci.StoreInfos = kept
	nbz, _ := ci.Marshal()
	_ = db.SetSync(key, nbz)
	n := &Node{ID: 77, Env: env, DB: db, Home: e.R[0].Home}
	if err := n.Start(); err != nil {
		return "restarting this binary at the upgrade height on a database without store " + store + " fails: " + trunc(err.Error(), 300)
	}
	blk := &BlockRec{B: &Block{Height: latest + 1, Time: e.Now.Add(5e9)}}
	out := e.applyBlock(n, blk, applyOpts{NoOracle: true, Tag: "demo"})
	if out.Halt != nil {
		return "processing the upgrade block on a database without store " + store + " halts: " + trunc(out.Halt.Error(), 300)
	}
	return "node came up and committed (the store was silently created at a mismatching version)"
}
