package main

import (
	"encoding/json"
	"fmt"
	"os"
	"path/filepath"
	"sort"
	"strings"
)

// nontrivialRule: which runs count as non-trivial for a property (its probes fired), in words and as a predicate.
type ntRule struct {
	Text string
	Pred func(s map[string]int64) bool
}

func sum(s map[string]int64, prefix string) int64 {
	var t int64
	for k, v := range s {
		if strings.HasPrefix(k, prefix) {
			t += v
		}
	}
	return t
}

var ntRules = map[string]ntRule{
	"C01": {"at least 3 records were acknowledged and re-read by query after later blocks", func(s map[string]int64) bool { return s["acked_records"] >= 3 && s["q.record"] >= 3 }},
	"C02": {"at least 2 AOL transactions were judged accepted and at least 1 rejected with the store dump compared", func(s map[string]int64) bool { return s["judged.aol.accepted"] >= 2 && s["judged.aol.rejected"] >= 1 }},
	"C03": {"at least 2 DID messages accepted and at least 1 with an invalid proof/key rejected", func(s map[string]int64) bool { return s["judged.did.accepted"] >= 2 && s["judged.did.rejected"] >= 1 }},
	"C04": {"at least 1 re-submission of a once-accepted DID message was delivered and the sequence was read back", func(s map[string]int64) bool { return s["probe.did.resubmission_delivered"] >= 1 && s["q.did"] >= 1 }},
	"C05": {"a DID was deactivated (or a genesis tombstone existed) and later messages or reads hit the tombstone", func(s map[string]int64) bool { return s["probe.did.tombstone_read_notfound"] >= 1 }},
	"C06": {"at least 2 PNFT transactions accepted and at least 1 refused with the store dump compared", func(s map[string]int64) bool { return s["judged.pnft.accepted"] >= 2 && s["judged.pnft.rejected"] >= 1 }},
	"C07": {"at least one block in which the burn address held a non-zero spendable balance at EndBlock", func(s map[string]int64) bool { return s["probe.burn.nonzero_deposit_block"] >= 1 }},
	"C08": {"at least one export/import round trip of a state with >= 3 custom entities completed", func(s map[string]int64) bool { return s["fault.bootstrap"] >= 1 && s["max.records"]+s["max.dids"]+s["max.tokens"]+s["max.topics"] >= 3 }},
	"C09": {"at least 2 replicas with different node-local configuration applied >= 5 blocks with >= 5 transactions", func(s map[string]int64) bool { return s["q.panel.replica"] >= 5 && s["txs"] >= 5 }},
	"C10": {"at least one injected crash fired (and the node was restarted and compared with the twin)", func(s map[string]int64) bool { return sum(s, "fault.crash.") >= 1 }},
	"C11": {"at least one create/update whose did, document id or proof target were chosen independently was delivered, and the registry was scanned", func(s map[string]int64) bool { return s["judged.did.accepted"] >= 1 && s["judged.did.rejected"] >= 1 }},
	"C12": {"at least 2 tokens existed and every listing kind was compared with the model", func(s map[string]int64) bool { return s["max.tokens"] >= 2 && s["q.pnfts"] >= 1 && s["q.pnfts_by_owner"] >= 1 && s["q.denoms_by_owner"] >= 1 }},
	"C13": {"at least 2 topics existed and paged listings of topics and writers were compared with the model", func(s map[string]int64) bool { return s["max.topics"] >= 2 && s["q.topics"] >= 1 && s["q.writers"] >= 1 }},
	"C14": {"at least one tampered transaction (signatures transplanted to another message list) was delivered", func(s map[string]int64) bool { return s["fault.net.tamper"] >= 1 }},
	"C15": {"at least 3 custom-only transactions had all bank balances and the supply compared around DeliverTx, at least one of them failing", func(s map[string]int64) bool { return s["probe.fee_charged"] >= 3 && s["tx.rejected"] >= 1 }},
	"C16": {"at least 5 messages with a stateless verdict (valid or invalid) went through the pipeline, including at least one invalid one", func(s map[string]int64) bool { return s["stateless.valid"]+s["stateless.invalid"] >= 5 && s["stateless.invalid"] >= 1 }},
	"C17": {"at least 3 hostile messages or queries were delivered", func(s map[string]int64) bool { return s["q.hostile"]+s["stateless.invalid"] >= 3 }},
	"C19": {"the upgrade plan executed at its height on a chain with >= 3 custom entities", func(s map[string]int64) bool { return s["probe.upgrade.executed"] >= 1 && s["max.records"]+s["max.dids"]+s["max.tokens"]+s["max.topics"] >= 3 }},
	"C20": {"at least 3 query/CheckTx tasks were scheduled at ABCI boundaries inside blocks", func(s map[string]int64) bool { return s["sched.mid_block_task"] >= 3 }},
}

var realStub = map[string]string{
	"app.App, baseapp, ante chain, all SDK/IBC modules as wired by app.New": "real",
	"x/aol, x/did, x/pnft, x/burn, types/compkey, app/upgrades, app/export": "real",
	"IAVL + rootmulti commit/load path, cachekv, query.Paginate":             "real",
	"secp256k1/ed25519 signing and verification":                             "real",
	"LevelDB":                                                                "stub: SimDB (ordered in-memory dbm.DB over a copy-on-write B-tree: batches become visible to concurrent readers atomically, iterators walk the snapshot current at their creation; ordered writes, durable sync; crash before write k; power loss keeps a prefix of the un-synced suffix)",
	"CometBFT consensus/p2p/mempool":                                         "stub: sequencer + block delivery with delay/partition/burst catch-up; ABCI handshake replay re-implemented",
	"x/gov proposals changing consensus parameters (submit, deposit, vote, tally, execution in EndBlock)": "real (SDK x/gov and x/consensus inside the real app; voting period 10 s and minimum deposit 1umed set in the simulated genesis)",
	"governance vote leading to the upgrade plan":                            "half of the upgrades: real (x/gov proposal with MsgSoftwareUpgrade, vote, tally, execution in EndBlock(H-1)); the other half: stub (UpgradeKeeper.ScheduleUpgrade in the deliver context of block H-1 on every replica); upgrade-info.json dumped by the harness in both",
	"x/crisis MsgVerifyInvariant, x/group proposals (EXEC_TRY) carrying custom messages, bank MsgSetSendEnabled and community-pool spends through x/gov, x/authz grants and MsgExec": "real (SDK modules inside the real app, driven by signed transactions)",
	"host environment of a node (HOME, USER, locale, cosmovisor and PANACEAD_* variables, working directory, GOMAXPROCS, local time zone, app.toml service options)": "simulated per replica inside one process (set around application construction and block execution of each non-reference replica); host name, CPU count and process id are common to all replicas and not varied",
	"wall clock":                                                             "real (simulated time = block header time)",
	"database left by the previous release (for the store-adding upgrade v2.2.0)": "stub: fabricated from a chain of this binary (the stores the release adds are taken out of the last commit info and their nodes deleted; the module version map is not rewound); store loader, upgrade-info.json parsing, handler and migrations: real",
}

func writeEvidence(prop, tier string, seed uint64, results []*RunResult, nviol int, wall float64, tc tierCfg, extra map[string]interface{}) error {
	rule, ok := ntRules[prop]
	if !ok {
		rule = ntRule{"every run counts", func(map[string]int64) bool { return true }}
	}
	agg := map[string]int64{}
	distinct := map[string]bool{}
	distinctAll := map[string]bool{}
	finalStates := map[string]bool{}
	var simTime float64
	var blocks, steps int
	var samples []json.RawMessage
	seeds := []uint64{}
	for _, r := range results {
		for k, v := range r.Stats {
			if strings.HasPrefix(k, "max.") {
				if v > agg[k] {
					agg[k] = v
				}
			} else {
				agg[k] += v
			}
		}
		distinctAll[r.Trace] = true
		if r.FinalState != "" {
			finalStates[r.FinalState] = true
		}
		if rule.Pred(r.Stats) {
			distinct[r.Trace] = true
		}
		simTime += r.SimTimeS
		blocks += r.Blocks
		steps += r.Steps
		if r.Sample != nil && len(samples) < 4 {
			samples = append(samples, r.Sample)
		}
		if len(seeds) < 40 {
			seeds = append(seeds, r.Seed)
		}
	}
	faults := map[string]int64{}
	probes := map[string]int64{}
	other := map[string]int64{}
	for k, v := range agg {
		switch {
		case strings.HasPrefix(k, "fault."):
			faults[k[6:]] = v
		case strings.HasPrefix(k, "probe."):
			probes[k[6:]] = v
		default:
			other[k] = v
		}
	}
	level := "exploration"
	if prop == "C10" || prop == "C19" {
		level = "fault_enumeration"
	}
	if len(samples) == 0 {
		samples = append(samples, json.RawMessage(`{"note":"no sample recorded"}`))
	}
	cov := map[string]interface{}{
		"evaluations":         len(results),
		"distinct_nontrivial": len(distinct),
		"rule": "one evaluation = one seeded simulated run (script generated from VERIF_SEED-derived seed: swarm configuration, genesis, client intents, network and node faults; executed on N real app.App replicas). " +
			"distinct = distinct SHA-256 of the full event trace (every tx verdict, fault firing and per-block app hash); non-trivial = " + rule.Text,
		"samples":                    samples,
		"distinct_traces_all":        len(distinctAll),
		"states":                     len(finalStates),
		"distinct_final_custom_states": len(finalStates),
		"runs_per_hour":              float64(len(results)) / wall * 3600,
		"simulated_time_s":           simTime,
		"blocks_executed_reference":  blocks,
		"script_steps":               steps,
		"fault_firings":              faults,
		"probes":                     probes,
		"counters":                   other,
		"seeds_first":                seeds,
		"worker_processes":           tc.Workers,
		"budget_s":                   tc.BudgetS,
		"components":                 realStub,
		"gomaxprocs_per_worker":      "1/4/16 round-robin",
		"exhaustive":                 false,
	}
	for k, v := range extra {
		cov[k] = v
	}
	ev := map[string]interface{}{
		"property_id": prop, "tier": tier, "seed": int64(seed & 0x7fffffffffffffff), "level": level, "coverage": cov, "wall_s": wall, "violations": nviol,
		"assumptions": []string{
			"database batches are atomic, writes totally ordered, *Sync durable (LevelDB's journal); torn batches and bit rot inside the database are not injected",
			"CometBFT delivers the same block sequence to every replica; consensus itself is not simulated",
			"SDK modules (auth, bank, authz, upgrade, x/nft) are the trusted base: their keepers are used to read balances, sequences and grants",
			"sampling, not proof: a clean batch is evidence",
		},
	}
	bz, err := json.MarshalIndent(ev, "", " ")
	if err != nil {
		return err
	}
	dir := filepath.Join(outDir(), "evidence")
	_ = os.MkdirAll(dir, 0o755)
	return os.WriteFile(filepath.Join(dir, prop+".json"), bz, 0o644)
}

var _ = sort.Strings
var _ = fmt.Sprint
