package main

import (
	"encoding/json"
	"os"
	"regexp"
)

// KnownFinding: a genuine defect recorded rather than repaired ("open"), or a repaired one ("fixed",
// which suppresses nothing). The file is committed and never written at run time.
type KnownFinding struct {
	Status      string `json:"status"` // open | fixed
	Property    string `json:"property"`
	Class       string `json:"class"`
	DetailRegex string `json:"detail_regex,omitempty"`
	EntityRegex string `json:"entity_regex,omitempty"`
	What        string `json:"what"`
	Commit      string `json:"commit,omitempty"`
	re, ere     *regexp.Regexp
}

type KnownFindings struct {
	Findings []*KnownFinding `json:"findings"`
}

func LoadKnown(path string) *KnownFindings {
	k := &KnownFindings{}
	bz, err := os.ReadFile(path)
	if err != nil {
		return k
	}
	if err := json.Unmarshal(bz, k); err != nil {
		panic("known_findings.json is not valid JSON: " + err.Error())
	}
	for _, f := range k.Findings {
		if f.DetailRegex != "" {
			f.re = regexp.MustCompile(f.DetailRegex)
		}
		if f.EntityRegex != "" {
			f.ere = regexp.MustCompile(f.EntityRegex)
		}
	}
	return k
}

func (k *KnownFindings) Match(v *Violation) *KnownFinding {
	if k == nil {
		return nil
	}
	for _, f := range k.Findings {
		if f.Status != "open" || f.Property != v.Property || f.Class != v.Class {
			continue
		}
		if f.re != nil && !f.re.MatchString(v.Detail) {
			continue
		}
		if f.ere != nil && !f.ere.MatchString(v.Entity) {
			continue
		}
		return f
	}
	return nil
}
