package main

import (
	"runtime"
	"fmt"
	"os"
	"path/filepath"
	"runtime/debug"
	"strings"

	abci "github.com/cometbft/cometbft/abci/types"
	"github.com/cometbft/cometbft/libs/log"
	"github.com/cosmos/cosmos-sdk/baseapp"
	"github.com/cosmos/cosmos-sdk/store"
	pruningtypes "github.com/cosmos/cosmos-sdk/store/pruning/types"
	storetypes "github.com/cosmos/cosmos-sdk/store/types"
	simtestutil "github.com/cosmos/cosmos-sdk/testutil/sims"
	sdk "github.com/cosmos/cosmos-sdk/types"
	"github.com/medibloc/panacea-core/v2/app"
)

// NodeCfg: node-local configuration that must not influence consensus-visible output (C09).
type NodeCfg struct {
	Pruning      string `json:"pruning,omitempty"`       // "" (default) | nothing | everything | custom
	IAVLCache    int    `json:"iavl_cache,omitempty"`    // 0 = default; -1 = cache size 0; n = size
	FastNodeOff  bool   `json:"fastnode_off,omitempty"`
	InterBlock   bool   `json:"inter_block_cache,omitempty"`
	MinGasPrices string `json:"min_gas_prices,omitempty"`
	InvCheck     int    `json:"inv_check,omitempty"` // crisis inv-check-period
	Storm        bool   `json:"storm,omitempty"`     // CheckTx/ReCheckTx/Simulate/Query storm before every DeliverTx
}

type haltError struct {
	Where string
	Panic string
	Stack string
}

func (h *haltError) Error() string { return fmt.Sprintf("panic in %s: %s", h.Where, h.Panic) }

type loggerSentinel struct{ Msg string }

// simLogger: silent, except that an Error logged while the app is being constructed aborts the
// construction with a sentinel (app.New answers load failures with logger.Error + os.Exit(1)).
type simLogger struct{ n *Node }

func (l simLogger) Debug(string, ...interface{}) {}
func (l simLogger) Info(string, ...interface{})  {}
func (l simLogger) Error(msg string, kv ...interface{}) {
	if l.n != nil && l.n.constructing {
		panic(loggerSentinel{Msg: fmt.Sprint(append([]interface{}{msg}, kv...)...)})
	}
}
func (l simLogger) With(...interface{}) log.Logger { return l }

type Node struct {
	ID           int
	Cfg          NodeCfg
	DB           *SimDB
	Home         string
	App          *app.App
	Env          *Env
	Up           bool
	constructing bool
	Restarts     int
	// progress inside the block being applied (for deliver-context reads)
	inBlock bool
	curHdr  *Block
}

// runSkipUpgrades: the --unsafe-skip-upgrades heights of the run in progress (one run at a time per process).
var runSkipUpgrades []int

func NewNode(id int, env *Env, cfg NodeCfg, scratch string) *Node {
	n := &Node{ID: id, Cfg: cfg, DB: NewSimDB(), Env: env}
	n.Home = filepath.Join(scratch, fmt.Sprintf("node%d", id))
	_ = os.MkdirAll(filepath.Join(n.Home, "data"), 0o755)
	return n
}

func (n *Node) baseappOpts() []func(*baseapp.BaseApp) {
	opts := []func(*baseapp.BaseApp){baseapp.SetChainID(ChainID)}
	switch n.Cfg.Pruning {
	case "nothing":
		opts = append(opts, baseapp.SetPruning(pruningtypes.NewPruningOptions(pruningtypes.PruningNothing)))
	case "everything":
		opts = append(opts, baseapp.SetPruning(pruningtypes.NewPruningOptions(pruningtypes.PruningEverything)))
	case "custom":
		opts = append(opts, baseapp.SetPruning(pruningtypes.NewCustomPruningOptions(2, 10)))
	}
	if n.Cfg.IAVLCache != 0 {
		sz := n.Cfg.IAVLCache
		if sz < 0 {
			sz = 0
		}
		opts = append(opts, baseapp.SetIAVLCacheSize(sz))
	}
	if n.Cfg.FastNodeOff {
		opts = append(opts, baseapp.SetIAVLDisableFastNode(true))
	}
	if n.Cfg.InterBlock {
		opts = append(opts, baseapp.SetInterBlockCache(store.NewCommitKVStoreCacheManager()))
	}
	if n.Cfg.MinGasPrices != "" {
		opts = append(opts, baseapp.SetMinGasPrices(n.Cfg.MinGasPrices))
	}
	return opts
}

// Start constructs the application on the node's disk (a process start). It returns a description
// of the failure if the application cannot be constructed from its own database.
func (n *Node) Start() (err error) {
	defer func() {
		n.constructing = false
		if r := recover(); r != nil {
			n.Up = false
			n.App = nil
			switch s := r.(type) {
			case loggerSentinel:
				err = fmt.Errorf("node failed to start: %s", s.Msg)
			case crashSentinel:
				err = fmt.Errorf("node start hit armed crash trigger")
			default:
				err = &haltError{Where: "app.New", Panic: fmt.Sprint(r), Stack: shortStack()}
			}
		}
	}()
	n.constructing = true
	defer n.enterEnv()()
	appOpts := simtestutil.AppOptionsMap{"home": n.Home}
	if n.Cfg.InvCheck > 0 {
		appOpts["inv-check-period"] = uint(n.Cfg.InvCheck)
	}
	// the start command hands the node's whole configuration (app.toml / flags) to app.New as application options, next
	// to deriving the baseapp options from it: the application can read every one of these
	appOpts["minimum-gas-prices"] = n.Cfg.MinGasPrices
	if n.Cfg.Pruning != "" {
		appOpts["pruning"] = n.Cfg.Pruning
		if n.Cfg.Pruning == "custom" {
			appOpts["pruning-keep-recent"], appOpts["pruning-interval"] = "2", "10"
		}
	}
	if n.Cfg.IAVLCache != 0 {
		appOpts["iavl-cache-size"] = n.Cfg.IAVLCache
	}
	appOpts["iavl-disable-fastnode"] = n.Cfg.FastNodeOff
	appOpts["inter-block-cache"] = n.Cfg.InterBlock
	appOpts["trace"] = n.ID%2 == 1
	if len(runSkipUpgrades) > 0 {
		appOpts["unsafe-skip-upgrades"] = append([]int(nil), runSkipUpgrades...) // the same on every node of the run, as operators agree on it
	}
	appOpts["x-crisis-skip-assert-invariants"] = n.ID%3 == 2
	// the rest of app.toml: services an operator switches on or off for one node (metrics, API, gRPC, state-sync
	// snapshots, event indexing). None of it may reach a transaction result. The reference replica keeps the defaults.
	if n.ID > 0 {
		on := func(bit int) bool { return (n.ID>>bit)&1 == 1 }
		appOpts["telemetry.enabled"] = on(0)
		appOpts["telemetry.service-name"] = fmt.Sprintf("node%d", n.ID)
		appOpts["telemetry.enable-hostname-label"] = on(1)
		appOpts["api.enable"] = on(1)
		appOpts["api.swagger"] = on(0)
		appOpts["grpc.enable"] = !on(1)
		appOpts["grpc-web.enable"] = on(0)
		appOpts["rosetta.enable"] = on(1)
		appOpts["state-sync.snapshot-interval"] = uint64(n.ID * 100)
		appOpts["state-sync.snapshot-keep-recent"] = uint32(n.ID)
		appOpts["index-events"] = []string{"message.action"}[:n.ID%2]
		appOpts["iavl-lazy-loading"] = on(1)
		appOpts["mempool.max-txs"] = n.ID * 1000
		appOpts["halt-height"] = uint64(0)
		appOpts["min-retain-blocks"] = uint64(0)
		appOpts["app-db-backend"] = []string{"", "goleveldb", "memdb"}[n.ID%3]
	}
	n.App = app.New(simLogger{n}, n.DB, nil, true, appOpts, n.baseappOpts()...)
	n.constructing = false
	n.Up = true
	n.inBlock = false
	return nil
}

// Kill drops the process: nothing but the disk survives. keepUnsynced: see SimDB.Revive.
func (n *Node) Kill(keepUnsynced int) {
	n.App = nil
	n.Up = false
	n.inBlock = false
	n.DB.Revive(keepUnsynced)
}

func shortStack() string {
	lines := strings.Split(string(debug.Stack()), "\n")
	var keep []string
	for i := 0; i+1 < len(lines); i++ {
		l := lines[i]
		if strings.Contains(l, "panacea-core") || strings.Contains(l, "cosmos-sdk/baseapp") {
			keep = append(keep, strings.TrimSpace(l))
			if len(keep) >= 14 {
				break
			}
		}
	}
	return strings.Join(keep, " <- ")
}

// guard runs one ABCI call. crashed=true: the armed crash trigger fired (expected, injected).
// halt!=nil: a panic escaped the call (the chain would halt).
func (n *Node) guard(where string, f func()) (crashed bool, halt *haltError) {
	defer func() {
		if r := recover(); r != nil {
			if _, ok := r.(crashSentinel); ok {
				crashed = true
				return
			}
			halt = &haltError{Where: where, Panic: fmt.Sprint(r), Stack: shortStack()}
		}
	}()
	f()
	return
}

func (n *Node) LastHeight() int64 {
	if n.App == nil {
		return -1
	}
	return n.App.LastBlockHeight()
}

func (n *Node) Info() abci.ResponseInfo { return n.App.Info(abci.RequestInfo{}) }

// committed store access (valid whenever the app is up and not inside Commit)
func (n *Node) CommittedStores() StoreGetter {
	return func(name string) sdk.KVStore {
		return n.App.CommitMultiStore().GetKVStore(n.App.GetKey(name))
	}
}

// deliver-state store access (valid between BeginBlock and Commit)
func (n *Node) DeliverStores() StoreGetter {
	ctx := n.App.NewContext(false, n.Env.Header(n.curHdr))
	return func(name string) sdk.KVStore { return ctx.KVStore(n.App.GetKey(name)) }
}

func (n *Node) DeliverCtx() sdk.Context { return n.App.NewContext(false, n.Env.Header(n.curHdr)) }

var _ = storetypes.StoreTypeIAVL

// enterEnv gives the code that runs next the process environment of this node's machine - what differs between two
// operators' hosts and must never reach a transaction result: HOME, USER, locale, cosmovisor variables, the working
// directory, the number of OS threads Go may use. The reference replica keeps the environment of the test process.
// Returns the function that restores it. (The host name and CPU count cannot be changed from inside the process.)
var perNodeEnv bool

func (n *Node) enterEnv() func() {
	if !perNodeEnv || n.ID == 0 || n.ID >= 1000 {
		return func() {}
	}
	vars := map[string]string{
		"HOME": fmt.Sprintf("/home/operator%d", n.ID), "USER": fmt.Sprintf("op%d", n.ID), "LOGNAME": fmt.Sprintf("op%d", n.ID),
		"LANG": []string{"C", "ko_KR.UTF-8", "tr_TR.UTF-8"}[n.ID%3], "LC_ALL": []string{"C", "ko_KR.UTF-8", "tr_TR.UTF-8"}[n.ID%3],
		"HOSTNAME": fmt.Sprintf("validator-%d", n.ID), "DAEMON_NAME": "panacead", "DAEMON_HOME": n.Home, "NODE_ID": fmt.Sprint(n.ID),
		"PANACEAD_HOME": n.Home, "PANACEAD_TELEMETRY_ENABLED": []string{"true", "false"}[n.ID%2], "GODEBUG": "",
	}
	old := map[string]*string{}
	for k, v := range vars {
		if cur, ok := os.LookupEnv(k); ok {
			c := cur
			old[k] = &c
		} else {
			old[k] = nil
		}
		_ = os.Setenv(k, v)
	}
	cwd, _ := os.Getwd()
	_ = os.Chdir(n.Home)
	procs := runtime.GOMAXPROCS([]int{1, 2, 4, 16}[n.ID%4])
	return func() {
		runtime.GOMAXPROCS(procs)
		if cwd != "" {
			_ = os.Chdir(cwd)
		}
		for k, v := range old {
			if v == nil {
				_ = os.Unsetenv(k)
			} else {
				_ = os.Setenv(k, *v)
			}
		}
	}
}
