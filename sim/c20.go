package main

import (
	"bufio"
	"encoding/json"
	"fmt"
	"os"
	"os/exec"
	"path/filepath"
	"sort"
	"strings"
	"sync"
)

func checkC20(tier string) int {
	return checkChain("C20", tier, []extraPart{ksPart("C20"), racePart})
}

// ksPart runs the key-store engine on worker processes and reports violations of `prop` (C20: deadlock,
// stall, linearizability; C17: panics on key files / operations).
func ksPart(prop string) extraPart {
	return func(seed uint64, tier string, scratch string) (map[string]interface{}, int, int) {
		budget := envFloat("VERIF_KS_QUICK_S", 25)
		if tier == "thorough" {
			budget = envFloat("VERIF_KS_THOROUGH_S", 600)
		}
		workers := 16
		if v := int(envFloat("VERIF_WORKERS", 0)); v >= 1 && v <= 64 {
			workers = v
		}
		self, _ := os.Executable()
		var mu sync.Mutex
		var results []*KsResult
		trouble := ""
		var wg sync.WaitGroup
		for w := 0; w < workers; w++ {
			wg.Add(1)
			go func(w int) {
				defer wg.Done()
				cmd := exec.Command(self, "ksworker", "--base", fmt.Sprint(seed), "--start", fmt.Sprint(w), "--stride", fmt.Sprint(workers), "--budget", fmt.Sprint(budget), "--scratch", scratch)
				cmd.Env = append(os.Environ(), "GOMAXPROCS="+[]string{"1", "4", "16"}[w%3])
				var stderr strings.Builder
				cmd.Stderr = &stderr
				outp, err := cmd.StdoutPipe()
				if err != nil || cmd.Start() != nil {
					mu.Lock()
					trouble = "cannot start ksworker"
					mu.Unlock()
					return
				}
				sc := bufio.NewScanner(outp)
				sc.Buffer(make([]byte, 1<<20), 1<<26)
				for sc.Scan() {
					var r KsResult
					if json.Unmarshal(sc.Bytes(), &r) == nil {
						mu.Lock()
						results = append(results, &r)
						mu.Unlock()
					}
				}
				if err := cmd.Wait(); err != nil {
					mu.Lock()
					trouble = fmt.Sprintf("ksworker %d exited abnormally: %v: %s", w, err, tail(stderr.String(), 800))
					mu.Unlock()
				}
			}(w)
		}
		wg.Wait()
		if trouble != "" {
			fmt.Println("MACHINERY-TROUBLE:", trouble)
			return nil, 0, 2
		}
		sort.Slice(results, func(i, j int) bool { return results[i].Seed < results[j].Seed })
		agg := map[string]int64{}
		distinct := map[string]bool{}
		var sample json.RawMessage
		nviol := 0
		exit := 0
		reported := map[string]bool{}
		for _, r := range results {
			for k, v := range r.Stats {
				agg[k] += v
			}
			distinct[r.Trace] = true
			if sample == nil && r.Sample != nil {
				sample = r.Sample
			}
			if r.Violation == nil {
				continue
			}
			if r.Violation.Property != prop {
				continue
			}
			nviol++
			ck := r.Violation.Class
			if reported[ck] {
				continue
			}
			reported[ck] = true
			path, code := confirmKs(r, scratch)
			if code == 2 {
				fmt.Printf("MACHINERY-TROUBLE: key-store violation (class %s, seed %d) does not replay; script kept at %s\n", ck, r.Seed, path)
				exit = 2
				continue
			}
			fmt.Printf("violation: property=%s class=%s seed=%d: %s\n", prop, ck, r.Seed, trunc(r.Violation.Detail, 900))
			fmt.Printf("VIOLATION property=%s replay=%s\n", prop, path)
			if exit == 0 {
				exit = 1
			}
		}
		cov := map[string]interface{}{"keystore_engine": map[string]interface{}{
			"histories":          len(results),
			"distinct_schedules": len(distinct),
			"counters":           agg,
			"sample_history":     sample,
			"real_vs_stub":       "KeyStore.Save/Load/LoadByAddress, PBKDF2/AES/Keccak, real files on a scratch directory: real; lock acquisition order and file-step interleaving: decided by the seeded scheduler through the verif hooks; process crash: the history is abandoned and a new KeyStore opens the same directory",
			"budget_s":           budget,
		}}
		fmt.Printf("keystore histories=%d distinct_schedules=%d violations=%d\n", len(results), len(distinct), nviol)
		return cov, nviol, exit
	}
}

func confirmKs(r *KsResult, scratch string) (string, int) {
	sc := r.Script
	if sc == nil {
		return "", 2
	}
	sc.Violation = r.Violation
	sc.TraceHash = r.Trace
	// minimise: drop whole operations while the same class persists (schedule re-drawn from recorded picks is
	// not stable under deletion, so candidates re-draw from the seed)
	same := func(c *KsScript) bool {
		x := runKsScript(c, scratch)
		return x.Violation != nil && x.Violation.Property == r.Violation.Property && x.Violation.Class == r.Violation.Class
	}
	cur := *sc
	cur.Picks = nil
	if same(&cur) {
		changed := true
		for changed {
			changed = false
			for t := range cur.Tasks {
				for i := range cur.Tasks[t] {
					cand := cur
					cand.Tasks = make([][]KsOp, len(cur.Tasks))
					for k := range cur.Tasks {
						cand.Tasks[k] = append([]KsOp(nil), cur.Tasks[k]...)
					}
					cand.Tasks[t] = append(cand.Tasks[t][:i:i], cand.Tasks[t][i+1:]...)
					if same(&cand) {
						cur = cand
						changed = true
						break
					}
				}
				if changed {
					break
				}
			}
			if len(cur.Hostile) > 1 {
				for i := range cur.Hostile {
					cand := cur
					cand.Hostile = append(append([]KsFile(nil), cur.Hostile[:i]...), cur.Hostile[i+1:]...)
					if same(&cand) {
						cur = cand
						changed = true
						break
					}
				}
			}
		}
		fin := runKsScript(&cur, scratch)
		if fin.Violation != nil {
			out := *fin.Script
			out.Violation = fin.Violation
			out.TraceHash = fin.Trace
			sc = &out
		}
	}
	_ = os.MkdirAll(filepath.Join(outDir(), "replays"), 0o755)
	path := filepath.Join(outDir(), "replays", fmt.Sprintf("ks-%s-%d-%s.json", r.Violation.Property, r.Seed, sanitize(r.Violation.Class)))
	bz, _ := json.MarshalIndent(sc, "", " ")
	if err := os.WriteFile(path, bz, 0o644); err != nil {
		return path, 2
	}
	self, _ := os.Executable()
	outb, err := exec.Command(self, "replay", path).CombinedOutput()
	code := 0
	if ee, ok := err.(*exec.ExitError); ok {
		code = ee.ExitCode()
	}
	if code != 1 || !strings.Contains(string(outb), "REPLAY-OK") {
		fmt.Printf("fresh-process key-store replay did not reproduce (exit %d): %s\n", code, tail(string(outb), 600))
		return path, 2
	}
	return path, 1
}
