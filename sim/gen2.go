package main

import (
	"encoding/base64"
	"encoding/hex"
	"fmt"
	"sort"
	"strings"

	sdk "github.com/cosmos/cosmos-sdk/types"
	"github.com/cosmos/cosmos-sdk/types/query"
	aoltypes "github.com/medibloc/panacea-core/v2/x/aol/types"
	didtypes "github.com/medibloc/panacea-core/v2/x/did/types"
	pnfttypes "github.com/medibloc/panacea-core/v2/x/pnft/types"
)

// ---------------------------------------------------------------------------------------------
// pre-seeded genesis: odd-shaped but legal state

func (g *Gen) seedGenesis(gs *GenesisSpec) {
	r := g.rng
	ts := gs.TimeUnix * 1_000_000_000
	// AOL: owners with addresses of lengths 1..255 that are byte-prefixes of one another
	base := r.Bytes(255)
	lens := []int{1, 2, 3, 19, 20, 21, 32, 64, 255}
	special := [][]byte{make([]byte, 20), bytesOf(0xff, 20), bytesOf(0x00, 32), bytesOf(0xff, 32), append(bytesOf(0x00, 19), 1), append([]byte{0xff}, make([]byte, 31)...)}
	a := &AolGenesisSpec{}
	nOwners := r.Range(2, 6)
	// sibling owners: same length, same bytes except the last one, one of them ending in 0x00 (and the all-zero address)
	sib := append([]byte(nil), base[100:119]...)
	siblings := [][]byte{append(append([]byte(nil), sib...), 0x00), append(append([]byte(nil), sib...), 0x07), make([]byte, 20), append(append([]byte(nil), sib[:18]...), 0x00, 0x00), append(append([]byte(nil), sib...), 0xff)}
	useSib := r.Chance(0.4)
	for i := 0; i < nOwners; i++ {
		var ob []byte
		if i == 0 {
			ob = g.env.Accs[r.Intn(4)].Addr
		} else if useSib && i-1 < len(siblings) {
			ob = siblings[i-1]
		} else {
			ob = base[:lens[r.Intn(len(lens))]]
		}
		nT := r.Range(1, 5)
		used := map[string]bool{}
		for j := 0; j < nT; j++ {
			name := topicPool[r.Intn(len(topicPool))]
			if used[name] {
				continue
			}
			used[name] = true
			t := AolGenTopic{OwnerHex: hex.EncodeToString(ob), Name: name, Desc: []string{"", "seeded"}[r.Intn(2)]}
			nW := r.Range(0, 6)
			seenW := map[string]bool{}
			for k := 0; k < nW; k++ {
				var wb []byte
				switch r.Intn(4) {
				case 0:
					wb = g.env.Accs[r.Intn(NumAccounts)].Addr
				case 1:
					wb = special[r.Intn(len(special))] // zero bytes, 0xff bytes, exactly 32 bytes
				default:
					wb = base[:lens[r.Intn(len(lens))]]
				}
				if seenW[string(wb)] {
					continue
				}
				seenW[string(wb)] = true
				t.Writers = append(t.Writers, AolGenWriter{AddrHex: hex.EncodeToString(wb), Moniker: []string{"", "w", "seed-w"}[r.Intn(3)], Desc: "", Ts: ts - int64(k)})
			}
			nR := r.Range(0, 4)
			for k := 0; k < nR && len(t.Writers) > 0; k++ {
				w := t.Writers[r.Intn(len(t.Writers))]
				t.Records = append(t.Records, AolGenRecord{KeyHex: randBytesHex(r, []int{0, 3, 70}), ValueHex: randBytesHex(r, []int{0, 10, 300}), Ts: ts - 1000 + int64(k), Writer: sdk.AccAddress(mustHex(w.AddrHex)).String()})
			}
			a.Topics = append(a.Topics, t)
		}
	}
	if r.Chance(0.25) {
		// a long topic: appends during the run cross the 255/256 boundary of the offset encoding
		ob := g.env.Accs[r.Intn(3)].Addr
		wb := g.env.Accs[r.Intn(3)].Addr
		t := AolGenTopic{OwnerHex: hex.EncodeToString(ob), Name: "long-" + topicPool[r.Intn(4)], Desc: "long"}
		t.Writers = []AolGenWriter{{AddrHex: hex.EncodeToString(wb), Moniker: "lw", Ts: ts}}
		n := r.Range(250, 258)
		for k := 0; k < n; k++ {
			t.Records = append(t.Records, AolGenRecord{KeyHex: fmt.Sprintf("%04x", k), ValueHex: fmt.Sprintf("%06x", k*7), Ts: ts - 5000 + int64(k), Writer: sdk.AccAddress(wb).String()})
		}
		a.Topics = append(a.Topics, t)
	}
	if (g.prop == "C01" || g.prop == "C13" || g.prop == "C08") && r.Chance(map[bool]float64{true: 0.04, false: 0.012}[g.tier == "thorough"]) {
		g.vlong = true
		// a very long topic: appends during the run cross the 65535/65536 boundary of the offset encoding
		ob := g.env.Accs[r.Intn(3)].Addr
		wb := g.env.Accs[r.Intn(3)].Addr
		t := AolGenTopic{OwnerHex: hex.EncodeToString(ob), Name: "vlong", Desc: "very long", Bulk: r.Range(65533, 65536)}
		t.Writers = []AolGenWriter{{AddrHex: hex.EncodeToString(wb), Moniker: "vw", Ts: ts - 100000}}
		a.Topics = append(a.Topics, t)
	}
	if r.Chance(0.15) || (g.prop == "C02" || g.prop == "C13") && r.Chance(0.2) {
		// an owner with 254-257 topics and a topic with 254-257 writers: counters and listings cross the 255/256 boundary
		ob := g.env.Accs[3].Addr
		nt := r.Range(254, 257)
		for k := 0; k < nt; k++ {
			a.Topics = append(a.Topics, AolGenTopic{OwnerHex: hex.EncodeToString(ob), Name: fmt.Sprintf("many-%03d", k)})
		}
		t := AolGenTopic{OwnerHex: hex.EncodeToString(g.env.Accs[4].Addr), Name: "crowded"}
		nw := r.Range(254, 257)
		for k := 0; k < nw; k++ {
			wb := Keyed(11, "crowd", uint64(k)).Bytes(20)
			t.Writers = append(t.Writers, AolGenWriter{AddrHex: hex.EncodeToString(wb), Moniker: "c", Ts: ts})
		}
		a.Topics = append(a.Topics, t)
	}
	// dedupe (owner,name)
	seen := map[string]bool{}
	var tt []AolGenTopic
	for _, t := range a.Topics {
		k := t.OwnerHex + "/" + t.Name
		if !seen[k] {
			seen[k] = true
			tt = append(tt, t)
		}
	}
	a.Topics = tt
	gs.Aol = a
	// DID: a few documents and tombstones (several entries so that map iteration order matters)
	nD := r.Range(2, 9)
	usedK := map[int]bool{}
	for i := 0; i < nD; i++ {
		k := r.Intn(NumDidKeys)
		if usedK[k] {
			continue
		}
		usedK[k] = true
		did := g.env.Dids[k]
		if r.Chance(0.3) {
			gs.Did = append(gs.Did, DidGenesisEntry{Did: did, Tomb: true, Seq: uint64(r.Range(1, 9))})
		} else {
			keys := []int{k}
			if r.Chance(0.4) {
				keys = append(keys, (k+1)%NumDidKeys)
			}
			seq := uint64(r.Range(0, 5))
			if r.Chance(0.35) { // sequences about to cross an encoding boundary
				seq = []uint64{254, 255, 65534, 65535, 1<<32 - 2, 1<<32 - 1, 1<<63 - 2, 1<<63 - 1}[r.Intn(8)]
			}
			gs.Did = append(gs.Did, DidGenesisEntry{Did: did, Seq: seq, Doc: g.didDoc(did, keys, 0)})
		}
	}
	if bulkP := map[string]float64{"C05": 0.35, "C08": 0.25, "C04": 0.2}[g.prop]; r.Chance(0.12) || r.Chance(bulkP) {
		// more DIDs than one default page (100) holds; the greatest identifiers are tombstones
		n := r.Range(101, 108)
		var ids []string
		for i := 0; i < n; i++ {
			ids = append(ids, didtypes.NewDID([]byte(fmt.Sprintf("bulk-did-%d-%d", i, n))))
		}
		sort.Strings(ids)
		have := map[string]bool{}
		for _, e := range gs.Did {
			have[e.Did] = true
		}
		for i, did := range ids {
			if have[did] {
				continue
			}
			if i >= n-3 || i%17 == 5 {
				gs.Did = append(gs.Did, DidGenesisEntry{Did: did, Tomb: true, Seq: uint64(1 + i%3)})
			} else {
				gs.Did = append(gs.Did, DidGenesisEntry{Did: did, Seq: uint64(i % 4), Doc: g.plainDoc(did, 4+i%8)})
			}
			// an identifier may be a proper prefix of another one (32 to 44 characters are legal): every other bulk identifier
			// gets its own first 43 characters as a neighbour (it sorts right in front of it)
			if short := did[:len(did)-1]; i%2 == 0 && len(did) == len("did:panacea:")+44 && !have[short] {
				have[short] = true
				gs.Did = append(gs.Did, DidGenesisEntry{Did: short, Seq: uint64(i % 3), Doc: g.plainDoc(short, 4+i%8)})
			}
		}
	}
	// PNFT: denoms with tokens held by their creators
	p := &PnftGenesisSpec{}
	nDen := r.Range(1, 4)
	usedD := map[string]bool{}
	for i := 0; i < nDen; i++ {
		id := g.idFrom(denomPool, false)
		if usedD[id] {
			continue
		}
		usedD[id] = true
		owner := g.addr(r.Intn(5))
		p.Denoms = append(p.Denoms, map[string]string{"id": id, "name": "seeded", "symbol": "SD", "desc": "", "uri": "", "uri_hash": "", "data": "", "owner": owner})
		nT := r.Range(0, 4)
		usedT := map[string]bool{}
		for j := 0; j < nT; j++ {
			tid := g.idFrom(tokenPool, false)
			if usedT[tid] {
				continue
			}
			usedT[tid] = true
			p.Tokens = append(p.Tokens, map[string]string{"denom": id, "id": tid, "name": "seed-token", "desc": "d", "uri": "u", "uri_hash": "h", "data": "x", "creator": owner, "owner": owner, "at": fmt.Sprint(gs.TimeUnix - int64(100+j))})
		}
	}
	if r.Chance(0.15) {
		// more denoms than one default page (100) holds, spread over the accounts
		n := r.Range(99, 104)
		for k := 0; k < n; k++ {
			id := fmt.Sprintf("bulk-%03d", k)
			if !usedD[id] {
				usedD[id] = true
				p.Denoms = append(p.Denoms, map[string]string{"id": id, "name": "bulk", "symbol": "B", "desc": "", "uri": "", "uri_hash": "", "data": "", "owner": g.addr(k % 5)})
			}
		}
		// "zz" sorts after every other id: the owner of the last denom in key order
		p.Denoms = append(p.Denoms, map[string]string{"id": "zz-last", "name": "last", "symbol": "Z", "desc": "", "uri": "", "uri_hash": "", "data": "", "owner": g.addr(5)})
		// ... and it holds a token (a denom beyond the first page that is not empty)
		p.Tokens = append(p.Tokens, map[string]string{"denom": "zz-last", "id": "t", "name": "t", "desc": "", "uri": "", "uri_hash": "", "data": "", "creator": g.addr(5), "owner": g.addr(5), "at": fmt.Sprint(gs.TimeUnix - 3)})
	}
	if r.Chance(0.12) {
		// two tokens whose (denom id, token id) pairs read the same once joined with a separator
		sep := []string{"/", "/", "/", ":", "|", "."}[r.Intn(6)]
		a, b, c := "hospital", "ward7", "bed12"
		if !usedD[a] && !usedD[a+sep+b] {
			usedD[a], usedD[a+sep+b] = true, true
			o := g.addr(r.Intn(5))
			for _, dn := range []string{a, a + sep + b} {
				p.Denoms = append(p.Denoms, map[string]string{"id": dn, "name": "joined", "symbol": "J", "desc": "", "uri": "", "uri_hash": "", "data": "", "owner": o})
			}
			p.Tokens = append(p.Tokens, map[string]string{"denom": a, "id": b + sep + c, "name": "t", "desc": "", "uri": "", "uri_hash": "", "data": "", "creator": o, "owner": o, "at": fmt.Sprint(gs.TimeUnix - 7)})
			p.Tokens = append(p.Tokens, map[string]string{"denom": a + sep + b, "id": c, "name": "t", "desc": "", "uri": "", "uri_hash": "", "data": "", "creator": o, "owner": o, "at": fmt.Sprint(gs.TimeUnix - 6)})
		}
	}
	if r.Chance(0.15) || (g.prop == "C12" || g.prop == "C09") && r.Chance(0.2) {
		// a denom with well over a hundred tokens (listings beyond any batch or page size somebody may have in mind)
		o := g.addr(r.Intn(5))
		p.Denoms = append(p.Denoms, map[string]string{"id": "crowd", "name": "crowd", "symbol": "C", "desc": "", "uri": "", "uri_hash": "", "data": "", "owner": o})
		for j, n := 0, r.Range(66, 140); j < n; j++ {
			p.Tokens = append(p.Tokens, map[string]string{"denom": "crowd", "id": fmt.Sprintf("tok%04d", j), "name": "t", "desc": "", "uri": "", "uri_hash": "", "data": "", "creator": o, "owner": []string{o, g.addr(6)}[j%2], "at": fmt.Sprint(gs.TimeUnix - 9)})
		}
	}
	gs.Pnft = p
	// the planning model must know the seeded state
	_, m := g.env.BuildGenesisModelOnly(gs)
	g.plan = m
}

// ---------------------------------------------------------------------------------------------
// boundary table (C16): each documented limit at min-1, min, max, max+1 and far outside

func (g *Gen) boundaryTable() []MsgSpec {
	o := g.addr(0)
	w := g.addr(1)
	rep := strings.Repeat
	var out []MsgSpec
	for _, topic := range []string{"", "a", rep("a", 70), rep("a", 71), rep("a", 300), "a b", "a/b", "é", rep("a", 69) + "é", "a\n", "a\x00", "._-", "Ab9"} {
		out = append(out, M("aol.CreateTopic", "topic", topic, "owner", o))
		out = append(out, M("aol.AddWriter", "topic", topic, "owner", o, "writer", w))
		out = append(out, M("aol.DeleteWriter", "topic", topic, "owner", o, "writer", w))
		m := M("aol.AddRecord", "topic", topic, "owner", o, "writer", w)
		out = append(out, m)
	}
	// code points that character-class shortcuts let through: case folding (KELVIN SIGN folds to k, LONG S to s, dotted/dotless
	// I), full-width forms, digits and numerals of other scripts, invisible characters
	specials := []string{"\u212a", "\u017f", "\u0130", "\u0131", "\uff21", "\uff10", "\u0663", "\u00b2", "\u2160", "\u200b", "\u00a0", "\u0301", "\ufeff", "\u00df", "\u03a9"}
	for _, sp := range specials {
		out = append(out, M("aol.CreateTopic", "topic", "clinic-"+sp, "owner", o), M("aol.CreateTopic", "topic", sp, "owner", o),
			M("aol.AddWriter", "topic", "bt", "owner", o, "writer", w, "moniker", "dr-"+sp, "desc", ""),
			M("aol.AddWriter", "topic", "x"+sp, "owner", o, "writer", w, "moniker", "m", "desc", ""),
			M("aol.DeleteWriter", "topic", sp+"x", "owner", o, "writer", w), g.recordSpec(o, "rec"+sp, w, ""))
	}
	for _, mon := range []string{"", rep("m", 70), rep("m", 71), "m m", "é", "m\t", rep("m", 1000)} {
		out = append(out, M("aol.AddWriter", "topic", "bt", "owner", o, "writer", w, "moniker", mon))
	}
	for _, d := range []string{rep("d", 4999), rep("d", 5000), rep("d", 5001), rep("d", 4999) + "é", rep("é", 2500), rep("é", 2501), rep("d", 20000)} {
		out = append(out, M("aol.CreateTopic", "topic", "bt", "owner", o, "desc", d))
		out = append(out, M("aol.AddWriter", "topic", "bt", "owner", o, "writer", w, "desc", d))
	}
	for _, kl := range []int{0, 69, 70, 71, 256} {
		m := M("aol.AddRecord", "topic", "bt", "owner", o, "writer", w)
		m.Key = hex.EncodeToString(make([]byte, kl))
		out = append(out, m)
	}
	for _, vl := range []int{0, 4999, 5000, 5001, 9000} {
		m := M("aol.AddRecord", "topic", "bt", "owner", o, "writer", w)
		m.Value = hex.EncodeToString(make([]byte, vl))
		out = append(out, m)
	}
	addrs := []string{"", " ", "\t", " \n ", "\u3000", "\u00a0", "panacea1", "panacea1qqqqqqqqqqqqqqqqqqqqqqqqqqqqqqqqqqqqqq", "cosmos1qyqszqgpqyqszqgpqyqszqgpqyqszqgpjnp7du", strings.ToUpper(o),
		sdk.AccAddress(make([]byte, 1)).String(), sdk.AccAddress(make([]byte, 32)).String(), sdk.AccAddress(make([]byte, 255)).String(), sdk.AccAddress(make([]byte, 256)).String(), o + "x", "panacea1!@#"}
	for _, ad := range addrs {
		out = append(out, M("aol.CreateTopic", "topic", "bt", "owner", ad))
		out = append(out, M("aol.AddWriter", "topic", "bt", "owner", o, "writer", ad))
		out = append(out, M("aol.AddRecord", "topic", "bt", "owner", ad, "writer", w))
		out = append(out, M("aol.AddRecord", "topic", "bt", "owner", o, "writer", w, "fee_payer", ad))
		out = append(out, M("pnft.CreateDenom", "id", "bd", "name", "n", "symbol", "s", "creator", ad))
		out = append(out, M("pnft.TransferDenom", "id", "bd", "sender", o, "receiver", ad))
		out = append(out, M("pnft.Transfer", "denom", "bd", "id", "t", "sender", o, "receiver", ad))
		out = append(out, M("pnft.Burn", "denom", "bd", "id", "t", "burner", ad))
		// every address field of every message type
		out = append(out, M("pnft.UpdateDenom", "id", "bd", "name", "n2", "updater", ad), M("pnft.DeleteDenom", "id", "bd", "remover", ad),
			M("pnft.Mint", "denom", "bd", "id", "t", "name", "n", "creator", ad), M("pnft.TransferDenom", "id", "bd", "sender", ad, "receiver", o),
			M("pnft.Transfer", "denom", "bd", "id", "t", "sender", ad, "receiver", o),
			M("aol.AddWriter", "topic", "bt", "owner", ad, "writer", w), M("aol.DeleteWriter", "topic", "bt", "owner", ad, "writer", w),
			M("aol.DeleteWriter", "topic", "bt", "owner", o, "writer", ad), M("aol.AddRecord", "topic", "bt", "owner", o, "writer", ad),
			MsgSpec{T: "did.Create", F: map[string]string{"did": g.env.Dids[0], "from": ad}, Doc: g.plainDoc(g.env.Dids[0], 0), Proof: &ProofSpec{Key: 0, MethodID: g.env.Dids[0] + "#key1", Seq: "0"}},
			MsgSpec{T: "did.Update", F: map[string]string{"did": g.env.Dids[0], "from": ad}, Doc: g.plainDoc(g.env.Dids[0], 0), Proof: &ProofSpec{Key: 0, MethodID: g.env.Dids[0] + "#key1", Seq: "cur"}})
		out = append(out, MsgSpec{T: "did.Deactivate", F: map[string]string{"did": g.env.Dids[0], "from": ad}, Proof: &ProofSpec{Key: 0, MethodID: g.env.Dids[0] + "#key0"}})
	}
	// PNFT required fields
	for _, c := range [][]string{{"id", ""}, {"name", ""}, {"symbol", ""}, {"creator", ""}} {
		m := M("pnft.CreateDenom", "id", "bd", "name", "n", "symbol", "s", "creator", o)
		m.F[c[0]] = c[1]
		out = append(out, m)
	}
	for _, c := range [][]string{{"denom", ""}, {"id", ""}, {"name", ""}, {"creator", ""}} {
		m := M("pnft.Mint", "denom", "bd", "id", "t", "name", "n", "creator", o)
		m.F[c[0]] = c[1]
		out = append(out, m)
	}
	out = append(out, M("pnft.UpdateDenom", "id", "", "updater", o), M("pnft.UpdateDenom", "id", "bd", "updater", ""), M("pnft.DeleteDenom", "id", "", "remover", o),
		M("pnft.TransferDenom", "id", "", "sender", o, "receiver", w), M("pnft.Transfer", "denom", "", "id", "t", "sender", o, "receiver", w), M("pnft.Transfer", "denom", "bd", "id", "", "sender", o, "receiver", w),
		M("pnft.Burn", "denom", "", "id", "t", "burner", o), M("pnft.Burn", "denom", "bd", "id", "", "burner", o))
	// receivers that are spellings of a valid address which bech32 does not allow (mixed case), of the sender and of another account
	mixed := func(a string) string {
		bs := []byte(a)
		for i := len("panacea1"); i < len(bs); i += 3 {
			if bs[i] >= 'a' && bs[i] <= 'z' {
				bs[i] -= 32
			}
		}
		return string(bs)
	}
	out = append(out, M("pnft.TransferDenom", "id", "bd", "sender", o, "receiver", mixed(o)), M("pnft.TransferDenom", "id", "bd", "sender", o, "receiver", mixed(w)),
		M("pnft.TransferDenom", "id", "bd", "sender", mixed(o), "receiver", w), M("pnft.Transfer", "denom", "bd", "id", "t", "sender", o, "receiver", mixed(o)),
		M("pnft.Transfer", "denom", "bd", "id", "t", "sender", o, "receiver", mixed(w)), M("aol.AddWriter", "topic", "t", "owner", o, "writer", mixed(o)),
		M("aol.AddWriter", "topic", "t", "owner", o, "writer", mixed(w)), M("aol.DeleteWriter", "topic", "t", "owner", o, "writer", mixed(o)))
	// DID identifiers
	k := 3
	good := g.env.Dids[k]
	idpart := good[len("did:panacea:"):]
	didVariants := []string{good, "did:panacea:" + rep("1", 31), "did:panacea:" + rep("1", 32), "did:panacea:" + rep("z", 44), "did:panacea:" + rep("z", 45),
		"did:panacea:" + rep("0", 40), "did:panacea:" + rep("O", 40), "did:panacea:" + rep("l", 40), "did:panacea:" + rep("I", 40), "did:other:" + idpart, "DID:panacea:" + idpart, "did:panacea:", "", good + " ", " " + good, good + "\n", "did:panacea:" + rep("é", 20)}
	// the same limits with identifiers that begin with letters of the method prefix itself ("did:panacea:" is made of
	// a c d e i n p and ':'): a hand-written scanner that strips or skips the prefix by character set miscounts these
	for _, lead := range []string{"a", "d", "pan", "did", "acdeinp", "panacea"} {
		for _, n := range []int{31, 32, 44, 45} {
			didVariants = append(didVariants, "did:panacea:"+lead+rep("1", n-len(lead)), "did:panacea:"+lead+rep("z", n-len(lead)))
		}
	}
	didVariants = append(didVariants, "did:panacea:did:panacea:"+idpart, "did:panacea:"+idpart+":", "did:panacea::"+idpart[1:], "did:panacea"+idpart, "did:panacea:"+idpart[:43]+"#")
	for _, dv := range didVariants {
		doc := g.plainDoc(dv, k)
		out = append(out, MsgSpec{T: "did.Create", F: map[string]string{"did": dv, "from": o}, Doc: doc, Proof: &ProofSpec{Key: k, MethodID: dv + "#key1", Seq: "0"}})
		out = append(out, MsgSpec{T: "did.Deactivate", F: map[string]string{"did": dv, "from": o}, Proof: &ProofSpec{Key: k, MethodID: dv + "#key1"}})
	}
	// proofs
	out = append(out, MsgSpec{T: "did.Create", F: map[string]string{"did": good, "from": o}, Doc: g.plainDoc(good, k), Proof: &ProofSpec{Key: k, MethodID: good + "#key1", NoSig: true}})
	out = append(out, MsgSpec{T: "did.Update", F: map[string]string{"did": good, "from": o}, Doc: g.plainDoc(good, k), Proof: &ProofSpec{Key: k, MethodID: good + "#key1", NoSig: true}})
	out = append(out, MsgSpec{T: "did.Deactivate", F: map[string]string{"did": good, "from": o}, Proof: &ProofSpec{Key: k, MethodID: good + "#key1", NoSig: true}})
	// documents
	mut := func(f func(d *DocSpec)) {
		d := g.plainDoc(good, k)
		f(d)
		for _, t := range []string{"did.Create", "did.Update"} {
			out = append(out, MsgSpec{T: t, F: map[string]string{"did": good, "from": o}, Doc: d, Proof: &ProofSpec{Key: k, MethodID: good + "#key1", Seq: "cur"}})
		}
	}
	mut(func(d *DocSpec) {})
	mut(func(d *DocSpec) { d.Id = "" })
	mut(func(d *DocSpec) { d.VMs = nil })
	mut(func(d *DocSpec) { d.Auth = nil })
	for _, suf := range []string{"key1#", "key1#" + rep("k", 123), "key1#" + rep("k", 124), "key1#" + rep("k", 300), "key1#my key", "key1#a\tb", "#", "##", "a#b#c", "", "k", rep("k", 128), rep("k", 129), "a b", "a\tb", "é", rep("k", 127) + "é", "\f", "a\fb", "a\rb", "a\nb", "a\vb", "a\u00a0b", "a\u2003b", " k", "k "} {
		s := suf
		mut(func(d *DocSpec) { d.VMs[0].Id = good + "#" + s; d.Auth[0].Ref = good + "#" + s })
	}
	mut(func(d *DocSpec) { d.VMs[0].Id = "did:panacea:" + rep("2", 40) + "#key1"; d.Auth[0].Ref = d.VMs[0].Id })
	// the fragment limit is per fragment, whatever the length of the DID in front of it
	for _, dl := range []int{32, 33, 43} {
		short := "did:panacea:" + rep("3", dl)
		for _, fl := range []int{128, 129, 130, 140} {
			sd, f := short, fl
			d := g.plainDoc(sd, k)
			d.VMs[0].Id = sd + "#" + rep("f", f)
			d.Auth[0].Ref = d.VMs[0].Id
			out = append(out, MsgSpec{T: "did.Create", F: map[string]string{"did": sd, "from": o}, Doc: d, Proof: &ProofSpec{Key: k, MethodID: d.VMs[0].Id, Seq: "0"}})
		}
	}
	mut(func(d *DocSpec) { d.VMs[0].Id = "key1"; d.Auth[0].Ref = "key1" })
	for _, typ := range []string{"", "Ed25519VerificationKey2018", "JsonWebKey2020", "UnheardOfKey2031", "Secp256k1VerificationKey2018", "X25519KeyAgreementKey2019"} {
		t := typ
		mut(func(d *DocSpec) { d.VMs[0].Type = t })
	}
	for _, key := range []string{"", "0OIl", "abc def", "é", "3yZe7d"} {
		kk := key
		mut(func(d *DocSpec) { d.VMs[0].Key = -1; d.VMs[0].RawKey = kk })
	}
	// a relationship entry whose oneof is not set at all, in each of the five lists of an otherwise well-formed document
	mut(func(d *DocSpec) { d.Auth = append(d.Auth, RelSpec{Unset: true}) })
	mut(func(d *DocSpec) { d.Assertion = []RelSpec{{Unset: true}} })
	mut(func(d *DocSpec) { d.KeyAgree = []RelSpec{{Unset: true}} })
	mut(func(d *DocSpec) { d.CapInv = []RelSpec{{Unset: true}} })
	mut(func(d *DocSpec) { d.CapDel = []RelSpec{{Ref: good + "#key1"}, {Unset: true}} })
	mut(func(d *DocSpec) { d.Auth[0].Ref = good + "#missing" })
	// a method embedded in a relationship under the id of a LISTED method, itself malformed (no type, a key that is not base58, no key)
	dup := func(typ, raw string) *VMSpec { return &VMSpec{Id: good + "#key1", Type: typ, Controller: good, Key: -1, RawKey: raw} }
	mut(func(d *DocSpec) { d.Assertion = []RelSpec{{VM: dup("", "3yZe7d")}} })
	mut(func(d *DocSpec) { d.KeyAgree = []RelSpec{{VM: dup("EcdsaSecp256k1VerificationKey2019", "0OIl")}} })
	mut(func(d *DocSpec) { d.CapInv = []RelSpec{{VM: dup("EcdsaSecp256k1VerificationKey2019", "")}} })
	mut(func(d *DocSpec) { d.Auth = append(d.Auth, RelSpec{VM: dup("", "")}) })
	// a plain reference to a method that exists only embedded in another relationship (earlier list, same list, later list)
	emb := func() *VMSpec { return &VMSpec{Id: good + "#emb", Type: "EcdsaSecp256k1VerificationKey2019", Controller: good, Key: k} }
	mut(func(d *DocSpec) { d.Assertion = []RelSpec{{VM: emb()}}; d.KeyAgree = []RelSpec{{Ref: good + "#emb"}} })
	mut(func(d *DocSpec) { d.Auth = append(d.Auth, RelSpec{VM: emb()}); d.CapDel = []RelSpec{{Ref: good + "#emb"}} })
	mut(func(d *DocSpec) { d.CapInv = []RelSpec{{VM: emb()}, {Ref: good + "#emb"}} })
	mut(func(d *DocSpec) { d.Assertion = []RelSpec{{Ref: good + "#emb"}}; d.CapDel = []RelSpec{{VM: emb()}} })
	mut(func(d *DocSpec) { d.Assertion = []RelSpec{{Ref: good + "#missing"}} })
	mut(func(d *DocSpec) { d.KeyAgree = []RelSpec{{Ref: "nonsense"}} })
	mut(func(d *DocSpec) { d.CapInv = []RelSpec{{VM: &VMSpec{Id: good + "#ded", Type: "", Key: k}}} })
	mut(func(d *DocSpec) { d.CapDel = []RelSpec{{VM: &VMSpec{Id: good + "#ded", Type: "Ed25519VerificationKey2018", Key: k}}} })
	mut(func(d *DocSpec) { d.Auth = []RelSpec{{VM: &VMSpec{Id: good + "#ded", Type: "EcdsaSecp256k1VerificationKey2019", Key: k}}} })
	for _, cs := range [][]string{{}, {"https://example.org"}, {w3cContext, w3cContext}, {w3cContext, ""}, {w3cContext, "https://a", "https://b"}, {"https://a", w3cContext}} {
		c := cs
		mut(func(d *DocSpec) { d.Contexts = c })
	}
	mut(func(d *DocSpec) { d.NoContext = true })
	mut(func(d *DocSpec) { d.EmptyContexts = true })
	mut(func(d *DocSpec) { d.EmptyController = true })
	mut(func(d *DocSpec) { d.Controller = []string{"", ""} })
	for _, cs := range [][]string{{good}, {"did:panacea:short"}, {good, "x"}, {""}, {good, g.env.Dids[4]}} {
		c := cs
		mut(func(d *DocSpec) { d.Controller = c })
	}
	for _, sv := range []SvcSpec{{"s", "t", "e"}, {"", "t", "e"}, {"s", "", "e"}, {"s", "t", ""}} {
		s := sv
		mut(func(d *DocSpec) { d.Services = []SvcSpec{s} })
	}
	return out
}

func (g *Gen) plainDoc(did string, k int) *DocSpec {
	mid := did + "#key1"
	return &DocSpec{Id: did, VMs: []VMSpec{{Id: mid, Type: "EcdsaSecp256k1VerificationKey2019", Controller: did, Key: k}}, Auth: []RelSpec{{Ref: mid}}}
}

var boundaryCache []MsgSpec

// famMultiDefect: a message that breaks several documented limits at once. Which of them a node reports (the error
// code is part of the transaction result every replica must agree on) has to be a function of the message alone.
func (g *Gen) famMultiDefect() {
	r := g.rng
	o, w := g.addr(r.Intn(4)), g.addr(4+r.Intn(4))
	rep := strings.Repeat
	badTopic := []string{"", "bad topic!", rep("t", 71), "é"}[r.Intn(4)]
	badAddr := []string{"", "garbage", "cosmos1qqqqqqqqqqqqqqqqqqqqqqqqqqqqqqqqnrql8a", o[:len(o)-1]}[r.Intn(4)]
	var m MsgSpec
	switch r.Intn(8) {
	case 0:
		m = M("aol.AddWriter", "topic", badTopic, "owner", o, "writer", w, "moniker", rep("m", 71), "desc", rep("d", 5001))
	case 1:
		m = M("aol.AddWriter", "topic", badTopic, "owner", badAddr, "writer", badAddr, "moniker", rep("m", 71), "desc", "")
	case 2:
		m = M("aol.DeleteWriter", "topic", badTopic, "owner", badAddr, "writer", badAddr)
	case 3:
		m = M("aol.CreateTopic", "topic", badTopic, "owner", badAddr, "desc", rep("d", 5001))
	case 4:
		m = g.recordSpec(badAddr, badTopic, badAddr, "")
		m.Key = hex.EncodeToString([]byte(rep("k", 71)))
	case 5:
		m = M("pnft.CreateDenom", "id", "", "name", "", "symbol", "", "creator", badAddr)
	case 6:
		m = M("pnft.Mint", "denom", "", "id", "", "name", "", "creator", badAddr)
	case 7:
		m = M("pnft.Transfer", "denom", "", "id", "", "sender", badAddr, "receiver", badAddr)
	}
	// a random subset of the defects is repaired again, so that every pair of checks meets in some message
	fix := map[string]string{"topic": "ok-topic", "owner": o, "writer": w, "moniker": "m", "desc": "d", "id": "okid", "denom": "okdn", "name": "n", "symbol": "s", "creator": o, "sender": o, "receiver": w}
	keys := make([]string, 0, len(m.F))
	for k := range m.F {
		keys = append(keys, k)
	}
	sort.Strings(keys)
	for _, k := range keys {
		if v, ok := fix[k]; ok && r.Chance(0.3) {
			m.F[k] = v
		}
	}
	// unsigned-by-construction addresses cannot sign: the transaction is signed by an ordinary account
	g.emit(&TxSpec{Msgs: []MsgSpec{m}, Signers: []int{r.Intn(4)}})
}

func (g *Gen) famBoundary() {
	tbl := g.boundaryTable()
	// walk the table round-robin, starting at a seed-dependent offset so that batches cover it
	if g.boundaryPos == 0 {
		g.boundaryPos = 1 + g.rng.Intn(len(tbl))
	}
	n := g.rng.Range(1, 3)
	for i := 0; i < n; i++ {
		c := tbl[g.boundaryPos%len(tbl)]
		g.boundaryPos++
		switch g.rng.Pick([]int{6, 2, 2}) {
		case 0:
			g.emit(&TxSpec{Msgs: []MsgSpec{c}, Note: "boundary"})
		case 1: // inside authz exec, executed by the signer itself (no grant needed)
			g.emit(&TxSpec{Msgs: []MsgSpec{{T: "authz.Exec", F: map[string]string{"grantee": g.addr(0)}, Inner: []MsgSpec{c}}}, Note: "boundary via exec"})
		case 2: // in a multi-message transaction after a good message
			g.emit(&TxSpec{Msgs: []MsgSpec{M("aol.CreateTopic", "topic", fmt.Sprintf("bm%d", g.next), "owner", g.addr(0)), c}, Note: "boundary in multi-msg"})
		}
	}
}

// ---------------------------------------------------------------------------------------------
// hostile messages and queries (C17)

func (g *Gen) famHostile() {
	r := g.rng
	o := g.addr(0)
	rep := strings.Repeat
	big := rep("T", 300)
	cases := []MsgSpec{
		{T: "did.Create", F: map[string]string{"did": g.env.Dids[1], "from": o}, NilDoc: true, Proof: &ProofSpec{Key: 1, MethodID: "x", RawSig: "00"}},
		{T: "did.Update", F: map[string]string{"did": g.env.Dids[1], "from": o}, NilDoc: true, Proof: &ProofSpec{Key: 1, MethodID: "x", RawSig: "00"}},
		M("aol.CreateTopic", "topic", big, "owner", o),
		M("aol.AddWriter", "topic", big, "owner", o, "writer", o),
		M("aol.AddRecord", "topic", big, "owner", o, "writer", o),
		M("aol.AddRecord", "topic", "\xff\xfe", "owner", o, "writer", o),
		M("aol.AddRecord", "topic", "t", "owner", "\xff", "writer", "\xfe", "fee_payer", "\xfd"),
		M("aol.AddRecord", "topic", "t", "owner", o, "writer", o, "fee_payer", "not-an-address"),
		M("aol.CreateTopic", "topic", "t", "owner", sdk.AccAddress(make([]byte, 256)).String()),
		M("pnft.Mint", "denom", "\x00", "id", "\x00", "name", "\x00", "creator", o),
		M("pnft.CreateDenom", "id", rep("x", 70000), "name", "n", "symbol", "s", "creator", o),
		M("pnft.Transfer", "denom", "d", "id", "t", "sender", o, "receiver", "PANACEA1"),
		{T: "did.Deactivate", F: map[string]string{"did": rep("did:panacea:", 50), "from": o}, Proof: &ProofSpec{Key: 0, MethodID: rep("#", 500), RawSig: rep("ff", 4000)}},
		{T: "did.Create", F: map[string]string{"did": g.env.Dids[2], "from": o}, Doc: &DocSpec{Id: g.env.Dids[2], VMs: []VMSpec{{Id: g.env.Dids[2] + "#k", Type: "EcdsaSecp256k1VerificationKey2019", Key: -1, RawKey: rep("z", 5000)}}, Auth: []RelSpec{{Ref: g.env.Dids[2] + "#k"}}}, Proof: &ProofSpec{Key: 2, MethodID: g.env.Dids[2] + "#k", Seq: "0"}},
		{T: "did.Create", F: map[string]string{"did": g.env.Dids[2], "from": o}, Doc: &DocSpec{Id: g.env.Dids[2], VMs: []VMSpec{{Id: g.env.Dids[2] + "#k", Type: "EcdsaSecp256k1VerificationKey2019", Key: -1, RawKey: "1"}}, Auth: []RelSpec{{Ref: g.env.Dids[2] + "#k"}}}, Proof: &ProofSpec{Key: 2, MethodID: g.env.Dids[2] + "#k", Seq: "0"}},
		{T: "did.Create", F: map[string]string{"did": g.env.Dids[2], "from": o}, Doc: &DocSpec{Id: g.env.Dids[2], VMs: []VMSpec{{}}, Auth: []RelSpec{{}}}, Proof: &ProofSpec{Key: 2, MethodID: "", Seq: "0"}},
		{T: "authz.Exec", F: map[string]string{"grantee": o}, Inner: []MsgSpec{{T: "did.Create", F: map[string]string{"did": g.env.Dids[1], "from": o}, NilDoc: true, Proof: &ProofSpec{RawSig: "00"}}}},
		{T: "did.Create", F: map[string]string{"did": g.env.Dids[5], "from": o}, Doc: func() *DocSpec { d := g.plainDoc(g.env.Dids[5], 5); d.KeyAgree = []RelSpec{{Unset: true}}; return d }(), Proof: &ProofSpec{Key: 5, MethodID: g.env.Dids[5] + "#key1", Seq: "0"}},
		{T: "did.Update", F: map[string]string{"did": g.env.Dids[5], "from": o}, Doc: func() *DocSpec { d := g.plainDoc(g.env.Dids[5], 5); d.Auth = append(d.Auth, RelSpec{Unset: true}); return d }(), Proof: &ProofSpec{Key: 5, MethodID: g.env.Dids[5] + "#key1", Seq: "cur"}},
		{T: "authz.Exec", F: map[string]string{"grantee": o}, Inner: []MsgSpec{M("aol.AddRecord", "topic", big, "owner", o, "writer", "zzz")}},
	}
	if g.hostilePos == 0 {
		g.hostilePos = 1 + r.Intn(len(cases))
	}
	c := cases[g.hostilePos%len(cases)]
	g.hostilePos++
	g.emit(&TxSpec{Msgs: []MsgSpec{c}, Signers: []int{0}, Note: "hostile"})
}

type HQuery struct {
	Path    string `json:"path"`
	DataHex string `json:"data"`
	Height  int64  `json:"height,omitempty"` // 0 latest, -n = n heights back
}

func hq(path string, m protoMsg) HQuery {
	bz, _ := m.Marshal()
	return HQuery{Path: path, DataHex: hex.EncodeToString(bz)}
}

func (g *Gen) famHostileQuery() {
	r := g.rng
	o := g.addr(0)
	rep := strings.Repeat
	big := []string{rep("q", 256+r.Intn(300)), rep("é", 128), rep("é", 127) + "ab", rep("가", 86), rep("q", 200) + rep("가", 20), rep("\U0001F600", 64), rep("é", 127) + "a"}[r.Intn(7)]
	a255 := sdk.AccAddress(make([]byte, 255)).String()
	a256 := sdk.AccAddress(make([]byte, 256)).String()
	pgs := []*query.PageRequest{nil, {Key: []byte{0xff, 0x00, 0x01}}, {Offset: 1 << 62}, {Limit: ^uint64(0)}, {Key: []byte("x"), Offset: 3}, {Reverse: true, Key: r.Bytes(300)}, {Limit: 1, CountTotal: true, Reverse: true}, {Key: []byte{0x05}}}
	// keys shaped like real listing keys (the last stored key is the interesting one for reverse paging)
	tn := topicPool[r.Intn(len(topicPool))]
	acc := g.env.Accs[r.Intn(NumAccounts)].Addr
	pgs = append(pgs,
		&query.PageRequest{Reverse: true, Key: append([]byte{byte(len(tn))}, tn...)},
		&query.PageRequest{Reverse: r.Chance(0.7), Key: append([]byte{byte(len(acc))}, acc...)},
		&query.PageRequest{Reverse: true, Key: []byte(denomPool[r.Intn(len(denomPool))])},
		&query.PageRequest{Reverse: true, Key: []byte{byte(r.Intn(256))}, Limit: 1},
		&query.PageRequest{Reverse: true, Key: []byte{0xff}},
		&query.PageRequest{Reverse: true, Key: []byte{0x00}})
	pg := pgs[r.Intn(len(pgs))]
	cands := []HQuery{
		hq(qRecord, &aoltypes.QueryRecordRequest{OwnerAddress: o, TopicName: big, Offset: 0}),
		hq(qRecord, &aoltypes.QueryRecordRequest{OwnerAddress: a255, TopicName: rep("t", 255), Offset: ^uint64(0)}),
		hq(qRecord, &aoltypes.QueryRecordRequest{OwnerAddress: a256, TopicName: "t"}),
		hq(qRecord, &aoltypes.QueryRecordRequest{}),
		hq(qTopic, &aoltypes.QueryTopicRequest{OwnerAddress: o, TopicName: big}),
		hq(qTopic, &aoltypes.QueryTopicRequest{OwnerAddress: "\xff", TopicName: "\xfe"}),
		hq(qTopics, &aoltypes.QueryTopicsRequest{OwnerAddress: o, Pagination: pg}),
		hq(qTopics, &aoltypes.QueryTopicsRequest{OwnerAddress: a255, Pagination: pg}),
		hq(qWriter, &aoltypes.QueryWriterRequest{OwnerAddress: o, TopicName: big, WriterAddress: o}),
		hq(qWriter, &aoltypes.QueryWriterRequest{OwnerAddress: o, TopicName: "t", WriterAddress: a255}),
		hq(qWriters, &aoltypes.QueryWritersRequest{OwnerAddress: o, TopicName: big, Pagination: pg}),
		hq(qWriters, &aoltypes.QueryWritersRequest{OwnerAddress: o, TopicName: topicPool[r.Intn(len(topicPool))], Pagination: pg}),
		hq(qDID, &didtypes.QueryDIDRequest{DidBase64: "!!!not base64"}),
		hq(qDID, &didtypes.QueryDIDRequest{DidBase64: base64.StdEncoding.EncodeToString(r.Bytes(1000))}),
		hq(qDID, &didtypes.QueryDIDRequest{}),
		hq(qDenom, &pnfttypes.QueryDenomRequest{Id: "\x00"}),
		hq(qDenom, &pnfttypes.QueryDenomRequest{Id: rep("d", 100000)}),
		hq(qDenoms, &pnfttypes.QueryDenomsRequest{Pagination: pg}),
		hq(qDenomsBy, &pnfttypes.QueryDenomsByOwnerRequest{Owner: "garbage"}),
		hq(qDenomsBy, &pnfttypes.QueryDenomsByOwnerRequest{}),
		hq(qPNFT, &pnfttypes.QueryPNFTRequest{DenomId: "\x00\x00", Id: "\x00"}),
		hq(qPNFT, &pnfttypes.QueryPNFTRequest{}),
		hq(qPNFTs, &pnfttypes.QueryPNFTsRequest{DenomId: denomPool[r.Intn(len(denomPool))]}),
		hq(qPNFTsBy, &pnfttypes.QueryPNFTsByDenomOwnerRequest{DenomId: denomPool[r.Intn(len(denomPool))], Owner: "nope"}),
		hq(qPNFTsBy, &pnfttypes.QueryPNFTsByDenomOwnerRequest{DenomId: "dn\x00x", Owner: o}),
		hq(qPNFTsBy, &pnfttypes.QueryPNFTsByDenomOwnerRequest{DenomId: "", Owner: a255}),
		{Path: allQueryPaths[r.Intn(len(allQueryPaths))], DataHex: hex.EncodeToString(r.Bytes(r.Range(1, 60)))},
	}
	q := cands[r.Intn(len(cands))]
	if r.Chance(0.3) {
		q.Height = -int64(r.Range(1, 4))
	}
	g.steps = append(g.steps, Step{K: "hquery", HQ: &q})
}

func bytesOf(b byte, n int) []byte {
	out := make([]byte, n)
	for i := range out {
		out[i] = b
	}
	return out
}
