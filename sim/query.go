package main

import (
	"crypto/sha256"
	"encoding/base64"
	"encoding/hex"
	"fmt"
	"sort"

	abci "github.com/cometbft/cometbft/abci/types"
	sdk "github.com/cosmos/cosmos-sdk/types"
	"github.com/cosmos/cosmos-sdk/types/query"
	aoltypes "github.com/medibloc/panacea-core/v2/x/aol/types"
	didtypes "github.com/medibloc/panacea-core/v2/x/did/types"
	pnfttypes "github.com/medibloc/panacea-core/v2/x/pnft/types"
)

type protoMsg interface {
	Marshal() ([]byte, error)
	Unmarshal([]byte) error
}

const panicCode = 111222 // baseapp's code for a recovered panic (codespace "undefined")

type QRes struct {
	Code      uint32
	Codespace string
	Log       string
	Value     []byte
	Panicked  bool // the ABCI call itself panicked (escaped baseapp's recovery)
	PanicMsg  string
}

func (q QRes) OK() bool       { return q.Code == 0 && !q.Panicked }
func (q QRes) IsPanic() bool  { return q.Panicked || (q.Code == panicCode && q.Codespace == "undefined") }
func (q QRes) Brief() string  { return fmt.Sprintf("code=%d/%s log=%s", q.Code, q.Codespace, trunc(q.Log, 120)) }

// Query runs one ABCI query through the real entry point.
func (n *Node) Query(path string, req protoMsg, height int64) (res QRes) {
	bz, err := req.Marshal()
	if err != nil {
		return QRes{Code: 1, Log: "marshal: " + err.Error()}
	}
	return n.QueryRaw(path, bz, height)
}

func (n *Node) QueryRaw(path string, data []byte, height int64) (res QRes) {
	defer func() {
		if r := recover(); r != nil {
			res = QRes{Panicked: true, PanicMsg: fmt.Sprint(r)}
		}
	}()
	r := n.App.Query(abci.RequestQuery{Path: path, Data: data, Height: height})
	return QRes{Code: r.Code, Codespace: r.Codespace, Log: r.Log, Value: r.Value}
}

const (
	qRecord    = "/panacea.aol.v2.Query/Record"
	qTopic     = "/panacea.aol.v2.Query/Topic"
	qTopics    = "/panacea.aol.v2.Query/Topics"
	qWriter    = "/panacea.aol.v2.Query/Writer"
	qWriters   = "/panacea.aol.v2.Query/Writers"
	qDID       = "/panacea.did.v2.Query/DID"
	qDenom     = "/panacea.pnft.v2.Query/Denom"
	qDenoms    = "/panacea.pnft.v2.Query/Denoms"
	qDenomsBy  = "/panacea.pnft.v2.Query/DenomsByOwner"
	qPNFT      = "/panacea.pnft.v2.Query/PNFT"
	qPNFTs     = "/panacea.pnft.v2.Query/PNFTs"
	qPNFTsBy   = "/panacea.pnft.v2.Query/PNFTsByDenomOwner"
)

var allQueryPaths = []string{qRecord, qTopic, qTopics, qWriter, qWriters, qDID, qDenom, qDenoms, qDenomsBy, qPNFT, qPNFTs, qPNFTsBy}

// PanelReq is one request of the fixed query panel used for replica/height comparisons.
type PanelReq struct {
	Path string
	Data []byte
}

func pr(path string, m protoMsg) PanelReq {
	bz, _ := m.Marshal()
	return PanelReq{path, bz}
}

// BuildPanel derives a deterministic list of custom queries from a model state (every entity once,
// every listing, plus a few misses). cap limits the number of per-entity requests.
func BuildPanel(m *Model, env *Env, cap int) []PanelReq {
	var out []PanelReq
	owners := sortedKeys(m.AolOwners)
	for _, o := range owners {
		oa := sdk.AccAddress([]byte(o)).String()
		out = append(out, pr(qTopics, &aoltypes.QueryTopicsRequest{OwnerAddress: oa}))
		names := make([]string, 0, len(m.Aol[o]))
		for n := range m.Aol[o] {
			names = append(names, n)
		}
		sort.Strings(names)
		for _, n := range names {
			t := m.Aol[o][n]
			out = append(out, pr(qTopic, &aoltypes.QueryTopicRequest{OwnerAddress: oa, TopicName: n}))
			out = append(out, pr(qWriters, &aoltypes.QueryWritersRequest{OwnerAddress: oa, TopicName: n}))
			for _, w := range sortedKeysW(t.Writers) {
				out = append(out, pr(qWriter, &aoltypes.QueryWriterRequest{OwnerAddress: oa, TopicName: n, WriterAddress: sdk.AccAddress([]byte(w)).String()}))
			}
			for i := range t.Records {
				if i < 6 || i >= len(t.Records)-2 {
					out = append(out, pr(qRecord, &aoltypes.QueryRecordRequest{OwnerAddress: oa, TopicName: n, Offset: uint64(i)}))
				}
			}
			out = append(out, pr(qRecord, &aoltypes.QueryRecordRequest{OwnerAddress: oa, TopicName: n, Offset: uint64(len(t.Records))}))
		}
	}
	dids := make([]string, 0, len(m.Did))
	for d := range m.Did {
		dids = append(dids, d)
	}
	sort.Strings(dids)
	for _, d := range dids {
		out = append(out, pr(qDID, &didtypes.QueryDIDRequest{DidBase64: base64.StdEncoding.EncodeToString([]byte(d))}))
	}
	out = append(out, pr(qDenoms, &pnfttypes.QueryDenomsRequest{}))
	dens := make([]string, 0, len(m.Denoms))
	for d := range m.Denoms {
		dens = append(dens, d)
	}
	sort.Strings(dens)
	for _, d := range dens {
		out = append(out, pr(qDenom, &pnfttypes.QueryDenomRequest{Id: d}))
		out = append(out, pr(qPNFTs, &pnfttypes.QueryPNFTsRequest{DenomId: d}))
		ids := make([]string, 0, len(m.Tokens[d]))
		for id := range m.Tokens[d] {
			ids = append(ids, id)
		}
		sort.Strings(ids)
		for _, id := range ids {
			out = append(out, pr(qPNFT, &pnfttypes.QueryPNFTRequest{DenomId: d, Id: id}))
		}
	}
	for _, a := range env.Accs[:4] {
		out = append(out, pr(qDenomsBy, &pnfttypes.QueryDenomsByOwnerRequest{Owner: a.Addr.String()}))
		for _, d := range dens {
			out = append(out, pr(qPNFTsBy, &pnfttypes.QueryPNFTsByDenomOwnerRequest{DenomId: d, Owner: a.Addr.String()}))
		}
	}
	if cap > 0 && len(out) > cap {
		// keep a deterministic spread
		step := float64(len(out)) / float64(cap)
		var sel []PanelReq
		for i := 0; i < cap; i++ {
			sel = append(sel, out[int(float64(i)*step)])
		}
		out = sel
	}
	return out
}

// RunPanel executes the panel and returns a hash of all answers (code + value bytes).
func (n *Node) RunPanel(panel []PanelReq, height int64) (string, *QRes) {
	h := sha256.New()
	for _, p := range panel {
		r := n.QueryRaw(p.Path, p.Data, height)
		if r.IsPanic() {
			rr := r
			return "", &rr
		}
		fmt.Fprintf(h, "%s|%d|%s|", p.Path, r.Code, r.Codespace)
		h.Write(r.Value)
		h.Write([]byte{0})
	}
	return hex.EncodeToString(h.Sum(nil)[:12]), nil
}

func sortedKeys(m map[string]bool) []string {
	out := make([]string, 0, len(m))
	for k := range m {
		out = append(out, k)
	}
	sort.Strings(out)
	return out
}
func sortedKeysW(m map[string]WriterM) []string {
	out := make([]string, 0, len(m))
	for k := range m {
		out = append(out, k)
	}
	sort.Strings(out)
	return out
}

// ---- paging helpers (C13) -------------------------------------------------------------------

type PageStyle struct {
	Limit      uint64 // limit of the first page
	RestLimit  uint64 // limit of every further page (0 = same as Limit)
	RestUnset  bool   // every further page leaves the limit unset (0 on the wire: the default page size)
	Reverse    bool
	CountTotal bool
	ByOffset   bool
}

func (p PageStyle) String() string {
	return fmt.Sprintf("limit=%d rest_limit=%d rest_unset=%v reverse=%v count=%v offset_based=%v", p.Limit, p.RestLimit, p.RestUnset, p.Reverse, p.CountTotal, p.ByOffset)
}

// RandomPageStyle draws a paging style: any page size (including 0 = default, sizes around 1000 and absurdly
// large ones), key- or offset-based, forward or reverse, with or without count_total, and a different size
// for the pages after the first ("first k, then everything left").
func RandomPageStyle(r *PRNG) PageStyle {
	lim := []uint64{0, 1, 1, 2, 2, 3, 7, 100, 999, 1000, 1001, 5000, 1 << 40, ^uint64(0) >> 1}
	st := PageStyle{Limit: lim[r.Intn(len(lim))], Reverse: r.Chance(0.35), CountTotal: r.Chance(0.4), ByOffset: r.Chance(0.45)}
	if r.Chance(0.4) {
		st.RestLimit = lim[1+r.Intn(len(lim)-1)]
	} else if st.Limit != 0 && r.Chance(0.25) {
		st.RestUnset = true // "the first two, then whatever the default page brings"
	}
	return st
}

// pageAll pages through a listing until exhaustion. fetch returns the items of one page and the page response.
func pageAll(style PageStyle, fetch func(*query.PageRequest) ([]string, *query.PageResponse, *QRes)) (items []string, total uint64, bad *QRes, pages int) {
	var key []byte
	var offset uint64
	for pages = 0; pages < 1000; pages++ {
		limit := style.Limit
		if pages > 0 && style.RestLimit != 0 {
			limit = style.RestLimit
		}
		if pages > 0 && style.RestUnset {
			limit = 0
		}
		req := &query.PageRequest{Limit: limit, Reverse: style.Reverse, CountTotal: style.CountTotal}
		if style.ByOffset {
			req.Offset = offset
		} else {
			req.Key = key
		}
		got, pr, q := fetch(req)
		if q != nil {
			return items, total, q, pages
		}
		items = append(items, got...)
		if pr != nil && pr.Total > 0 {
			total = pr.Total
		}
		if style.ByOffset {
			offset += uint64(len(got))
			eff := limit
			if eff == 0 {
				eff = query.DefaultLimit
			}
			if uint64(len(got)) < eff || len(got) == 0 {
				return items, total, nil, pages + 1
			}
		} else {
			if pr == nil || len(pr.NextKey) == 0 {
				return items, total, nil, pages + 1
			}
			key = pr.NextKey
		}
	}
	return items, total, &QRes{Code: 1, Log: "paging did not terminate within 1000 pages"}, pages
}
