package main

import (
	"crypto/sha256"
	"encoding/binary"
)

// PRNG is a SplitMix64 generator: tiny, identical across Go versions, no global state.
type PRNG struct{ s uint64 }

func NewPRNG(seed uint64) *PRNG { return &PRNG{s: seed} }

func (p *PRNG) Uint64() uint64 {
	p.s += 0x9E3779B97F4A7C15
	z := p.s
	z = (z ^ (z >> 30)) * 0xBF58476D1CE4E5B9
	z = (z ^ (z >> 27)) * 0x94D049BB133111EB
	return z ^ (z >> 31)
}

// Intn returns a value in [0,n). n<=0 returns 0.
func (p *PRNG) Intn(n int) int {
	if n <= 1 {
		return 0
	}
	return int(p.Uint64() % uint64(n))
}

func (p *PRNG) Float() float64 { return float64(p.Uint64()>>11) / float64(1<<53) }

// Chance returns true with probability pr.
func (p *PRNG) Chance(pr float64) bool { return p.Float() < pr }

func (p *PRNG) Range(lo, hi int) int { // inclusive
	if hi <= lo {
		return lo
	}
	return lo + p.Intn(hi-lo+1)
}

func (p *PRNG) Bytes(n int) []byte {
	b := make([]byte, n)
	for i := 0; i < n; i += 8 {
		v := p.Uint64()
		for j := 0; j < 8 && i+j < n; j++ {
			b[i+j] = byte(v >> (8 * j))
		}
	}
	return b
}

// Pick returns an index according to integer weights.
func (p *PRNG) Pick(weights []int) int {
	t := 0
	for _, w := range weights {
		if w > 0 {
			t += w
		}
	}
	if t == 0 {
		return 0
	}
	x := p.Intn(t)
	for i, w := range weights {
		if w <= 0 {
			continue
		}
		if x < w {
			return i
		}
		x -= w
	}
	return len(weights) - 1
}

// Keyed derives an independent stream from (seed, kind, ids...): deleting one step during
// minimisation does not shift the randomness of the others.
func Keyed(seed uint64, kind string, ids ...uint64) *PRNG {
	h := sha256.New()
	var b [8]byte
	binary.LittleEndian.PutUint64(b[:], seed)
	h.Write(b[:])
	h.Write([]byte(kind))
	for _, id := range ids {
		binary.LittleEndian.PutUint64(b[:], id)
		h.Write(b[:])
	}
	sum := h.Sum(nil)
	return NewPRNG(binary.LittleEndian.Uint64(sum[:8]))
}
