package main

import (
	"bytes"
	"fmt"
	"os"
	"path/filepath"
	"strings"

	storetypes "github.com/cosmos/cosmos-sdk/store/types"
	upgradetypes "github.com/cosmos/cosmos-sdk/x/upgrade/types"
)

// storeAddingUpgrade is the release whose descriptor adds stores and whose handler is known to run on a state built by
// this binary (the chain of a simulated run starts at genesis with the current binary: every store is mounted from the
// first block on, so the ordinary upgrade step - v2.2.1, no store changes - never exercises the store loader).
const storeAddingUpgrade = "v2.2.0"

// probeStoreAddingUpgrade (C10, C19): the database an upgrading node brings along never had the stores the release adds.
// Such a database is fabricated from a short populated chain of this binary (the first blocks of the run, then the plan):
// the added stores are removed from the commit info of the last height and their nodes deleted. On copies of it, with
// the upgrade-info file of the halted binary in the home directory:
//   - a reference node starts (the store loader adds the stores), processes the upgrade block H and block H+1;
//     AOL and DID data are what they were before the upgrade block;
//   - a victim stops after BeginBlock(H), after EndBlock(H) or after Commit(H), is started again on the same database
//     and home, must come up at the committed height with the committed hash, and from there produce the hashes of
//     the reference node.
func (e *Exec) probeStoreAddingUpgrade() {
	if e.isSub || e.stop || (e.Prop != "C10" && e.Prop != "C19") {
		return
	}
	rng := Keyed(e.S.Seed, "store-adding-upgrade")
	if !rng.Chance(envFloat("VERIF_STOREUPG_RATE", 0.12)) { // the variable is for trying the probe out; checks never set it
		return
	}
	var added []string
	_, ups := readDescriptors()
	for _, u := range ups {
		if u.Name == storeAddingUpgrade {
			added = u.Added
		}
	}
	if len(added) == 0 {
		e.Stats.Inc("probe.store_upgrade.no_descriptor")
		return
	}
	prop := e.Prop
	// the populated pre-upgrade chain: the transactions and blocks the run started with
	want := 1 + rng.Intn(3)
	var steps []Step
	blocks := 0
	kept := map[int]bool{}
	for _, st := range e.S.Steps {
		if st.K != "tx" && st.K != "block" {
			continue
		}
		if st.K == "tx" {
			// governance is left out: a proposal of the run may schedule another plan or change parameters, and what
			// that does to the blocks after the upgrade is the business of the run itself
			if st.Tx == nil || touchesGov(st.Tx.Msgs) || touchesGov(st.Tx.SignOver) || st.Tx.ReplayOf != 0 && !kept[st.Tx.ReplayOf] {
				continue
			}
			kept[st.ID] = true
		}
		steps = append(steps, st)
		if st.K == "block" {
			blocks++
			if blocks == want {
				break
			}
		}
	}
	if blocks == 0 {
		steps = append(steps, Step{K: "block"})
	}
	steps = append(steps, Step{K: "upgrade", PlanName: storeAddingUpgrade}, Step{K: "block"})
	dir, err := os.MkdirTemp(e.Scratch, "storeupg")
	if err != nil {
		return
	}
	defer os.RemoveAll(dir)
	s := &Script{Version: 1, Property: "C19", Seed: e.S.Seed, Config: RunConfig{Replicas: []NodeCfg{{Pruning: "nothing"}}, EpilogueOff: true}, Steps: steps}
	sub := NewExec(s, e.Env, dir, &KnownFindings{}, "")
	sub.KeepApps = true
	sub.isSub = true
	sub.Run()
	if sub.stop || len(sub.R) == 0 || len(sub.Blocks) < 2 || sub.at(sub.head()) == nil || sub.at(sub.head()).Plan == nil {
		e.Stats.Inc("probe.store_upgrade.chain_not_built")
		return
	}
	db := sub.R[0].DB
	sub.R[0].App = nil
	latest := sub.head()
	H := latest + 1
	plan := sub.at(latest).Plan
	if plan.Height != H || plan.Name != storeAddingUpgrade {
		e.Stats.Inc("probe.store_upgrade.chain_not_built")
		return
	}
	if !stripStores(db, latest, added) {
		e.Stats.Inc("probe.store_upgrade.chain_not_built")
		return
	}
	e.Stats.Inc("fault.upgrade.store_adding_from_fabricated_database")
	ctr := 0
	mk := func(tag string, from *SimDB) *Node {
		ctr++
		n := &Node{ID: 1100 + ctr, Env: e.Env, DB: from.Clone()}
		n.Home = filepath.Join(dir, tag)
		_ = os.MkdirAll(filepath.Join(n.Home, "data"), 0o755)
		sub.dumpUpgradeInfo(&Replica{Node: n}, plan)
		return n
	}
	blkH := &BlockRec{B: &Block{Height: H, Time: sub.Now.Add(5e9)}}
	blkH1 := &BlockRec{B: &Block{Height: H + 1, Time: sub.Now.Add(10e9)}}
	run := func(n *Node, rec *BlockRec, what string) ([]byte, bool) {
		out := sub.applyBlock(n, rec, applyOpts{NoOracle: true, Tag: "store-adding upgrade"})
		if out.Halt != nil {
			e.viol(prop, "upgrade.store_adding.halt", "", "%s: block %d on a database that never had the stores %v halts: %s [%s]", what, rec.B.Height, added, out.Halt.Error(), out.Halt.Stack)
			return nil, false
		}
		if !out.Committed || n.App == nil {
			e.viol(prop, "upgrade.store_adding.halt", "", "%s: block %d was not committed", what, rec.B.Height)
			return nil, false
		}
		return append([]byte(nil), n.App.LastCommitID().Hash...), true
	}

	// reference: never stops
	ref := mk("ref", db)
	defer func() { ref.App = nil }()
	if err := ref.Start(); err != nil {
		e.viol(prop, "upgrade.store_adding.start_failed", "", "a node of this release with the upgrade-info file of %s cannot be started on the database of the previous release (committed at height %d, without the stores %v): %v", storeAddingUpgrade, latest, added, err)
		return
	}
	if ref.LastHeight() != latest {
		e.viol(prop, "upgrade.store_adding.wrong_height", "", "the upgrading node came up at height %d, the database was committed at %d", ref.LastHeight(), latest)
		return
	}
	before := CustomDumpHashes(ref.CommittedStores())
	refH, ok := run(ref, blkH, "reference node")
	if !ok {
		return
	}
	after := CustomDumpHashes(ref.CommittedStores())
	for _, st := range []string{"aol", "did"} {
		if before[st] != after[st] {
			e.viol("C19", "upgrade.custom_data_changed", st, "the %s data differ before and after the (empty) upgrade block %d of %s", st, H, storeAddingUpgrade)
			return
		}
	}
	refH1, ok := run(ref, blkH1, "reference node")
	if !ok {
		return
	}
	e.Stats.Inc("probe.store_upgrade.reference_done")

	// victim: stops inside or right after the upgrade block
	kinds := []CrashAt{{Kind: "abci", N: 0, Loss: "kill"}, {Kind: "abci", N: 1, Loss: "kill"}, {Kind: "after_commit", Loss: "kill"}}
	at := kinds[rng.Intn(len(kinds))]
	where := map[string]string{"abci0": "after BeginBlock", "abci1": "after EndBlock, before Commit", "after_commit0": "after Commit"}[fmt.Sprintf("%s%d", at.Kind, at.N)]
	v := mk("victim", db)
	defer func() { v.App = nil }()
	if err := v.Start(); err != nil {
		e.viol(prop, "upgrade.store_adding.start_failed", "", "second node on the same database: %v", err)
		return
	}
	out := sub.applyBlock(v, blkH, applyOpts{Crash: &at, NoOracle: true, Tag: "store-adding upgrade (victim)"})
	if out.Halt != nil {
		e.viol(prop, "upgrade.store_adding.halt", "", "victim: block %d halts: %s", H, out.Halt.Error())
		return
	}
	if !out.Crashed {
		e.Stats.Inc("probe.store_upgrade.crash_point_not_reached")
		return
	}
	e.Stats.Inc("fault.crash.store_adding_upgrade." + at.Kind)
	v.Kill(-1)
	v.Restarts++
	if err := v.Start(); err != nil {
		e.viol(prop, "node.start_failed", "", "a node stopped %s of the upgrade block %d (%s, stores %v added) cannot be started again on its database and home: %v", where, H, storeAddingUpgrade, added, err)
		return
	}
	lh := v.LastHeight()
	wantH := latest
	if at.Kind == "after_commit" {
		wantH = H
	}
	if lh != wantH {
		e.viol(prop, "restart.wrong_height", "", "a node stopped %s of the upgrade block %d resumes at height %d, committed was %d", where, H, lh, wantH)
		return
	}
	if lh == H {
		if got := v.App.LastCommitID().Hash; !bytes.Equal(got, refH) {
			e.viol(prop, "restart.wrong_hash", "", "a node stopped %s of the upgrade block %d resumes with application hash %x, the node that never stopped has %x", where, H, got, refH)
			return
		}
	} else {
		got, ok := run(v, blkH, "restarted node")
		if !ok {
			return
		}
		if !bytes.Equal(got, refH) {
			e.viol(prop, "restart.replay_diverged", "", "a node stopped %s of the upgrade block %d and started again produces application hash %x for that block, the node that never stopped %x", where, H, got, refH)
			return
		}
	}
	got, ok := run(v, blkH1, "restarted node")
	if !ok {
		return
	}
	if !bytes.Equal(got, refH1) {
		e.viol(prop, "restart.replay_diverged", "", "a node stopped %s of the upgrade block %d and started again produces application hash %x for block %d, the node that never stopped %x", where, H, got, H+1, refH1)
		return
	}
	e.Stats.Inc("probe.store_upgrade.restart_equivalent")
}

// stripStores turns the database of a chain of this binary into what the previous release would have left: the named
// stores are taken out of the commit info of the latest version and everything stored under their prefixes is deleted.
func stripStores(db *SimDB, latest int64, names []string) bool {
	drop := map[string]bool{}
	for _, n := range names {
		drop[n] = true
	}
	key := []byte(fmt.Sprintf("s/%d", latest))
	bz, err := db.Get(key)
	if err != nil || bz == nil {
		return false
	}
	var ci storetypes.CommitInfo
	if err := ci.Unmarshal(bz); err != nil {
		return false
	}
	var kept []storetypes.StoreInfo
	for _, si := range ci.StoreInfos {
		if !drop[si.Name] {
			kept = append(kept, si)
		}
	}
	if len(kept) == len(ci.StoreInfos) {
		return false
	}
	ci.StoreInfos = kept
	nbz, err := ci.Marshal()
	if err != nil {
		return false
	}
	if err := db.SetSync(key, nbz); err != nil {
		return false
	}
	for _, n := range names {
		prefix := []byte("s/k:" + n + "/")
		end := append([]byte(nil), prefix...)
		end[len(end)-1]++
		it, err := db.Iterator(prefix, end)
		if err != nil {
			return false
		}
		var keys [][]byte
		for ; it.Valid(); it.Next() {
			keys = append(keys, append([]byte(nil), it.Key()...))
		}
		_ = it.Close()
		for _, k := range keys {
			if err := db.DeleteSync(k); err != nil {
				return false
			}
		}
	}
	return true
}

func touchesGov(ms []MsgSpec) bool {
	for i := range ms {
		if strings.HasPrefix(ms[i].T, "gov.") || strings.HasPrefix(ms[i].T, "group.") || touchesGov(ms[i].Inner) {
			return true
		}
	}
	return false
}

var _ = upgradetypes.UpgradeInfoFilename
