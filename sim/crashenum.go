package main

import (
	"fmt"
	"os"
	"path/filepath"
)

// wantSnapshot decides (from the seed only) whether the database is snapshotted right after Commit(h),
// so that every crash point of block h+1 can be enumerated at the end of the run.
func (e *Exec) wantSnapshot(h int64) bool {
	k := e.S.Config.CrashEnum
	if k <= 0 {
		return false
	}
	// always enumerate the upgrade block
	if n := len(e.Blocks); n > 0 && e.Blocks[n-1].Plan != nil && e.Blocks[n-1].Plan.Height == h+1 {
		return true
	}
	if len(e.snapshots) >= k+1 {
		return false
	}
	nb := 0
	for i := range e.S.Steps {
		if e.S.Steps[i].K == "block" {
			nb++
		}
	}
	if nb <= k {
		return true
	}
	return Keyed(e.S.Seed, "snap", uint64(h)).Chance(float64(k) / float64(nb))
}

type crashPoint struct {
	At   CrashAt
	Loss string
}

// crashEnumeration (C10, C19): for every block whose predecessor state was snapshotted, crash a scratch node at
// every ABCI boundary and before every database write of Commit (both loss flavours), restart it, and
// require the twin's state, then the twin's results for the following blocks.
func (e *Exec) crashEnumeration() {
	hs := make([]int64, 0, len(e.snapshots))
	for h := range e.snapshots {
		hs = append(hs, h)
	}
	sortInt64(hs)
	for _, h0 := range hs {
		if e.stop {
			return
		}
		h := h0 + 1 // the block whose crash points are enumerated
		if h > e.head() {
			continue
		}
		rec := e.at(h)
		snap := e.snapshots[h0]
		// dry run: count the database writes of Commit(h)
		dry := e.scratchNode(snap, rec, "dry")
		if dry == nil {
			return
		}
		w0 := dry.DB.WriteCount()
		out := e.applyBlock(dry, rec, applyOpts{Tag: "crash-enum dry run", PRNGKey: []uint64{999}})
		if out.Halt != nil || out.Mismatch != "" || !out.Committed {
			what := out.Mismatch
			if out.Halt != nil {
				what = out.Halt.Error()
			}
			e.viol("C10", "restart.replay_diverged", "", "a node restarted from the database committed at height %d does not reproduce block %d: %s", h0, h, what)
			return
		}
		W := int(dry.DB.WriteCount() - w0)
		dry.App = nil
		e.Stats.C["max.commit_db_writes"] = max64(e.Stats.C["max.commit_db_writes"], int64(W))
		var pts []crashPoint
		for c := 0; c <= len(rec.B.Txs)+1; c++ {
			pts = append(pts, crashPoint{At: CrashAt{Kind: "abci", N: c}, Loss: "kill"})
		}
		for k := 1; k <= W; k++ {
			pts = append(pts, crashPoint{At: CrashAt{Kind: "write", N: k}, Loss: "kill"})
			pts = append(pts, crashPoint{At: CrashAt{Kind: "write", N: k}, Loss: "power"})
		}
		pts = append(pts, crashPoint{At: CrashAt{Kind: "after_commit"}, Loss: "kill"})
		if s := e.S.Config.CrashSample; s > 0 && s < len(pts) {
			rng := Keyed(e.S.Seed, "crashsample", uint64(h))
			for i := len(pts) - 1; i > 0; i-- {
				j := rng.Intn(i + 1)
				pts[i], pts[j] = pts[j], pts[i]
			}
			pts = pts[:s]
		} else {
			e.Stats.Inc("crash_enum.blocks_fully_enumerated")
		}
		for pi, pt := range pts {
			if e.stop {
				return
			}
			e.oneCrashPoint(snap, rec, pt, pi)
		}
	}
}

func sortInt64(a []int64) {
	for i := 1; i < len(a); i++ {
		for j := i; j > 0 && a[j] < a[j-1]; j-- {
			a[j], a[j-1] = a[j-1], a[j]
		}
	}
}

var scratchCtr int

func (e *Exec) scratchNode(snap *SimDB, rec *BlockRec, tag string) *Node {
	scratchCtr++
	n := &Node{ID: 1000 + scratchCtr, Env: e.Env, DB: snap.Clone()}
	n.Home = filepath.Join(e.Scratch, fmt.Sprintf("scratch%d", scratchCtr))
	_ = os.MkdirAll(filepath.Join(n.Home, "data"), 0o755)
	h := rec.B.Height
	// upgrade-info.json is present when a plan for this height (or an earlier one) was dumped; vary it for
	// the upgrade block itself: v2.2.1 declares no store changes, so its absence must not matter
	if e.at(h-1) != nil && e.at(h-1).Plan != nil {
		if Keyed(e.S.Seed, "infofile", uint64(scratchCtr)).Chance(0.5) {
			r := &Replica{Node: n}
			e.dumpUpgradeInfo(r, e.at(h-1).Plan)
		} else {
			e.Stats.Inc("fault.restart.no_upgrade_info")
		}
	}
	if err := n.Start(); err != nil {
		prop := "C10"
		if e.nearUpgrade(h) {
			prop = "C19"
		}
		e.viol(prop, "node.start_failed", "", "%s: a node cannot be started on the database committed at height %d: %v", tag, h-1, err)
		return nil
	}
	if _, ok := e.verifyRestartState(n, false, e.H0+1, []int64{h - 1}, fmt.Sprintf("%s: restart on the database committed at height %d", tag, h-1)); !ok {
		return nil
	}
	return n
}

func (e *Exec) oneCrashPoint(snap *SimDB, rec *BlockRec, pt crashPoint, idx int) {
	h := rec.B.Height
	tag := fmt.Sprintf("crash point %s/%d (%s) of block %d", pt.At.Kind, pt.At.N, pt.Loss, h)
	n := e.scratchNode(snap, rec, tag)
	if n == nil {
		return
	}
	defer func() { n.App = nil; os.RemoveAll(n.Home) }()
	at := pt.At
	out := e.applyBlock(n, rec, applyOpts{Crash: &at, Tag: tag, PRNGKey: []uint64{uint64(1000 + idx)}, MidRate: e.S.Config.MidBlockRate})
	prop := "C10"
	if e.nearUpgrade(h) {
		prop = "C19"
	}
	if out.Halt != nil {
		e.viol(prop, "halt.replica", "", "%s: %s [%s]", tag, out.Halt.Error(), out.Halt.Stack)
		return
	}
	if out.Mismatch != "" {
		e.viol(prop, "restart.replay_diverged", "", "%s: before the crash the restarted node already diverged: %s", tag, out.Mismatch)
		return
	}
	if !out.Crashed {
		e.Stats.Inc("fault.crash.point_not_reached")
		return
	}
	e.Stats.Inc("fault.crash." + pt.At.Kind)
	e.Stats.Inc("crash_enum.points")
	keep := -1
	if pt.Loss == "power" {
		pend := n.DB.PendingUnsynced()
		keep = Keyed(e.S.Seed, "power-enum", uint64(h), uint64(idx)).Intn(pend + 1)
		e.Stats.Inc("fault.crash.power_loss")
	}
	n.Kill(keep)
	n.Restarts++
	if err := n.Start(); err != nil {
		e.viol(prop, "node.start_failed", "", "%s: the node cannot be started again: %v", tag, err)
		return
	}
	allowed := []int64{h - 1}
	switch pt.At.Kind {
	case "write":
		allowed = []int64{h - 1, h}
	case "after_commit":
		allowed = []int64{h}
	}
	lh, ok := e.verifyRestartState(n, false, e.H0+1, allowed, tag)
	if !ok {
		return
	}
	if lh == h {
		e.Stats.Inc("probe.crash.commit_persisted")
	} else if pt.At.Kind == "write" {
		e.Stats.Inc("probe.crash.commit_torn")
	}
	// from there: the same hashes and results as the node that never stopped (up to two more blocks)
	for hh := lh + 1; hh <= h+2 && hh <= e.head(); hh++ {
		o2 := e.applyBlock(n, e.at(hh), applyOpts{Tag: tag + " (continuing)", PRNGKey: []uint64{uint64(2000 + idx)}})
		if o2.Halt != nil || o2.Mismatch != "" || !o2.Committed {
			what := o2.Mismatch
			if o2.Halt != nil {
				what = o2.Halt.Error() + " [" + o2.Halt.Stack + "]"
			}
			e.viol(prop, "restart.replay_diverged", "", "%s: after the restart block %d does not reproduce the twin: %s", tag, hh, what)
			return
		}
	}
}
