package main

// Script generation: swarm configuration + concrete steps, derived from one seed.
// The generator plans with its own copy of the reference model so that most intents are meaningful
// and a tuned fraction is adversarial.

import (
	"bytes"
	"github.com/btcsuite/btcutil/base58"
	"encoding/hex"
	"fmt"
	"sort"
	"strings"
	"time"

	sdk "github.com/cosmos/cosmos-sdk/types"
	authtypes "github.com/cosmos/cosmos-sdk/x/auth/types"
	didtypes "github.com/medibloc/panacea-core/v2/x/did/types"
)

type Profile struct {
	W          map[string]int
	Blocks     [2]int
	TxPerBlock [2]int
	Replicas   [2]int
	PCrash     float64
	PLag       float64
	PReconfig  float64
	PBootstrap float64
	PRestart0  float64 // clean stop and start of the reference replica between two blocks
	PUpgrade   float64 // per run
	PAmino     float64
	PHold      float64
	Seeded     float64 // probability of a pre-seeded genesis
	CrashEnum  int
	CrashSamp  int
	MidRate    float64
	QueryEvery int
	PJump      float64 // clock jump per block
}

func baseWeights() map[string]int {
	return map[string]int{"aol": 30, "aolAdv": 8, "did": 18, "didAdv": 8, "pnft": 22, "pnftAdv": 8, "bank": 4, "burn": 3, "vest": 1,
		"authz": 5, "gov": 1, "crisis": 1, "group": 2, "staking": 2, "boundary": 4, "multiDefect": 2, "hostile": 3, "tamper": 4, "replay": 4, "multi": 5, "hquery": 2, "rollback": 4}
}

func profileFor(prop, tier string, rng *PRNG) *Profile {
	p := &Profile{W: baseWeights(), Blocks: [2]int{8, 28}, TxPerBlock: [2]int{0, 6}, Replicas: [2]int{2, 3},
		PCrash: 0.10, PLag: 0.05, PReconfig: 0.03, PBootstrap: 0.04, PRestart0: 0.05, PUpgrade: 0.15, PAmino: 0.2, PHold: 0.1, Seeded: 0.4,
		CrashEnum: 0, CrashSamp: 6, MidRate: 0.15, QueryEvery: 6, PJump: 0.15}
	if tier == "thorough" {
		p.Blocks = [2]int{10, 60}
		p.TxPerBlock = [2]int{0, 8}
		p.Replicas = [2]int{2, 4}
	}
	boost := func(k string, f int) { p.W[k] *= f }
	only := func(keep ...string) {
		ks := map[string]bool{}
		for _, k := range keep {
			ks[k] = true
		}
		for k := range p.W {
			if !ks[k] {
				p.W[k] = p.W[k] / 6
			}
		}
	}
	switch prop {
	case "C01":
		only("aol", "aolAdv", "authz", "multi", "replay", "rollback")
		boost("rollback", 3)
		boost("aol", 2)
		p.PBootstrap, p.PCrash = 0.12, 0.15
	case "C02":
		only("aol", "aolAdv", "authz", "multi", "tamper", "rollback")
		boost("rollback", 3)
		boost("aolAdv", 4)
		boost("authz", 3)
		p.PBootstrap, p.Seeded = 0.12, 0.7 // "the writer list changes only through transactions of the owner" - also across export/import
	case "C03":
		only("did", "didAdv", "replay", "rollback")
		boost("rollback", 2)
		boost("didAdv", 4)
	case "C04":
		only("did", "didAdv", "replay")
		boost("replay", 8)
		p.PBootstrap = 0.12
	case "C05":
		only("did", "didAdv", "replay")
		boost("didAdv", 3)
		boost("replay", 3)
		p.PCrash, p.PBootstrap, p.CrashEnum = 0.25, 0.15, 1
		p.Seeded = 0.7
	case "C06":
		only("pnft", "pnftAdv", "authz", "tamper", "multi", "rollback")
		boost("rollback", 3)
		boost("pnftAdv", 4)
		boost("authz", 2)
	case "C07":
		boost("gov", 10)
		only("bank", "burn", "vest", "aol", "gov")
		boost("burn", 12)
		boost("vest", 12)
		boost("bank", 3)
		p.PJump = 0.4
		p.PCrash = 0.15
	case "C08":
		boost("pnft", 2)
		boost("pnftAdv", 3)
		boost("did", 2)
		p.PBootstrap = 0.25
		p.Seeded = 0.7
	case "C09":
		boost("rollback", 3)
		boost("gov", 4)
		boost("group", 4)
		boost("multiDefect", 6)
		p.Replicas = [2]int{3, 4}
		p.PCrash, p.PLag, p.PReconfig = 0.1, 0.1, 0.08
		p.MidRate = 0.3
		p.Seeded = 0.7
	case "C10":
		p.PUpgrade = 0.4 // restarts around (executed and skipped) upgrade heights
		boost("rollback", 3)
		boost("gov", 8)
		boost("staking", 4)
		boost("crisis", 5)
		boost("vest", 6) // coins that unlock with time at the burn address: what a node does about them must not depend on when it started
		p.PJump = 0.3
		p.PCrash = 0.3
		p.CrashEnum, p.CrashSamp = 2, 10
		if tier == "thorough" {
			p.CrashEnum, p.CrashSamp = 6, 0
			p.Blocks = [2]int{6, 16}
		}
	case "C11":
		only("did", "didAdv", "replay")
		boost("didAdv", 5)
	case "C12":
		only("pnft", "pnftAdv", "multi", "rollback")
		boost("pnftAdv", 4)
		p.PBootstrap = 0.12
	case "C13":
		p.PBootstrap = 0.12
		only("aol", "aolAdv", "authz", "rollback")
		boost("aol", 3)
		p.Seeded = 0.8
		p.QueryEvery = 2
	case "C14":
		boost("tamper", 12)
		p.PAmino = 0.5
	case "C15":
		boost("multi", 8)
		boost("rollback", 4)
		boost("aolAdv", 2)
		p.PAmino = 0.3
	case "C16":
		boost("boundary", 25)
		boost("multiDefect", 6)
		boost("didAdv", 3)
		boost("did", 2)
		boost("authz", 2)
		boost("multi", 2)
	case "C17":
		boost("hostile", 15)
		boost("multiDefect", 4)
		boost("hquery", 15)
		boost("boundary", 4)
	case "C19":
		boost("gov", 3)
		p.PUpgrade = 1.0
		p.PCrash = 0.15
		p.PReconfig = 0.1
		p.CrashEnum, p.CrashSamp = 1, 12
		p.Blocks = [2]int{6, 24}
		if tier == "thorough" {
			p.CrashSamp = 0
		}
	case "C20":
		p.MidRate = 0.8
		p.Replicas = [2]int{2, 3}
		p.QueryEvery = 3
	}
	// swarm: switch off a random subset of fault kinds and workload families per run
	if rng.Chance(0.3) {
		p.PCrash = 0
	}
	if rng.Chance(0.3) {
		p.PLag = 0
	}
	if rng.Chance(0.5) {
		p.PReconfig = 0
	}
	if rng.Chance(0.3) && prop != "C08" {
		p.PBootstrap = 0
	}
	if rng.Chance(0.3) {
		p.PHold = 0
	}
	if rng.Chance(0.3) {
		p.PRestart0 = 0
	}
	for _, k := range []string{"bank", "burn", "vest", "authz", "hquery", "hostile", "boundary", "multiDefect", "gov", "crisis", "group", "staking"} {
		if rng.Chance(0.25) && p.W[k] < 40 {
			p.W[k] = 0
		}
	}
	return p
}

type plannedDid struct {
	Did     string
	KeyIdxs []int // keys currently under authentication (by DID key table index) and their method ids
	Methods []string
	Tomb    bool
}

type Gen struct {
	rng   *PRNG
	env   *Env
	prop  string
	tier  string
	p     *Profile
	plan  *Model
	steps []Step
	next  int
	now   time.Time
	nrep  int
	// planning memory
	didTx       []didRef // planned-accepted DID messages (for replays)
	allTx       []int    // all tx ids with their specs
	specs       map[int]*TxSpec
	built       map[int][]sdk.Msg
	upgraded    bool
	boundaryPos int
	nPolicies    int
	policyAdmins []string
	vlong       bool // the genesis holds the 65 5xx-record topic
	hostilePos  int
	whale       bool
	giant       bool // GiantDenomA/B exist (2^255 each, held by GiantHolder)
	giantSent   bool
	sole        bool
	soleLeft    int
	nProposals  int
	hasAtom     bool
}

type didRef struct {
	Tx  int
	Did string
}

func (g *Gen) addr(i int) string { return g.env.Accs[i%len(g.env.Accs)].Addr.String() }

var topicPool = []string{".", "..", "a", "a.", "a.b", "a.b-c", "A", "a_b", "ab", "b", "0", "topic-1", "topic-10", "t." + strings.Repeat("x", 68), strings.Repeat("Z", 70), "-", "._-",
	// lengths whose length byte (the first byte of the store key part) is itself a character of the name alphabet: 45 '-', 46 '.', 48-57 digits, 65-69 'A'-'E'
	strings.Repeat("m", 45), "n" + strings.Repeat("m", 45), strings.Repeat("d", 48), strings.Repeat("d", 57), strings.Repeat("E", 65), strings.Repeat("e", 69)}
// identifier pools: prefixes of one another, separators, case twins, white-space twins ("dn" / "dn " / " dn"), NUL, multi-byte
var denomPool = []string{"\x00", "\x00\x00", "\x00lab", "dn%2Fx", "d%6E", "dn", "dn1", "dn/x", "d", "dnx", "den:om", "DN", strings.Repeat("q", 90), "dn\x00x", "dn\x00", "ünï", "a b", "dn ", " dn", "dn\t", "d "}
var tokenPool = []string{"dn", "dn1", "d", "x", "y", "x/y", "x%2Fy", "%78", "x%zz", "x\x00y", "1", "10", "tok", "T", strings.Repeat("k", 120), "\x00", "é", "x ", " x", "tok ", "1\n"}

func GenerateScript(seed uint64, prop, tier string, env *Env) *Script {
	rng := NewPRNG(seed ^ 0xA5A5_0000_0000_5A5A)
	g := &Gen{rng: rng, env: env, prop: prop, tier: tier, specs: map[int]*TxSpec{}, built: map[int][]sdk.Msg{}}
	g.p = profileFor(prop, tier, rng)
	s := &Script{Version: 1, Property: prop, Seed: seed, Tier: tier}
	// replicas
	g.nrep = rng.Range(g.p.Replicas[0], g.p.Replicas[1])
	s.Config.Replicas = append(s.Config.Replicas, NodeCfg{Pruning: "nothing", InvCheck: boolInt(rng.Chance(0.3) || prop == "C07")})
	for i := 1; i < g.nrep; i++ {
		s.Config.Replicas = append(s.Config.Replicas, g.randomCfg())
	}
	s.Config.Profile = prop
	s.Config.QueryEvery = g.p.QueryEvery
	s.Config.MidBlockRate = g.p.MidRate
	s.Config.CrashEnum = g.p.CrashEnum
	s.Config.CrashSample = g.p.CrashSamp
	s.Config.Genesis.TimeUnix = []int64{1700000000, 946684800, 4102444800, 1}[rng.Pick([]int{6, 1, 1, 1})]
	if prop == "C09" && rng.Chance(0.12) {
		// every header carries the zero time (a clock that never started). CometBFT never produces such headers, so this
		// is only used where the statement quantifies over every block sequence and wall-clock independence (C09); other
		// properties would see artefacts of the impossible timestamp (e.g. PNFT genesis validation refuses created_at = 0)
		s.Config.Genesis.ZeroTime = true
	}
	if rng.Chance(0.5) || prop == "C07" || prop == "C15" {
		s.Config.Genesis.ExtraDenoms = []string{"uatom", "ibc/27394FB092D2ECCD56123C74F36E4C1F926001CEADA9CA97EA622B25F41E5EB2"}[:rng.Range(1, 2)]
	}
	g.hasAtom = len(s.Config.Genesis.ExtraDenoms) > 0
	if rng.Chance(0.5) || prop == "C07" || prop == "C17" {
		s.Config.Genesis.ExtraDenoms = append(s.Config.Genesis.ExtraDenoms, WhaleDenom)
		g.whale = true
		if rng.Chance(0.5) {
			// two denominations of 2^255 each, one holder: each amount is a legal coin, their sum is not a 256-bit integer
			g.giant = true
			s.Config.Genesis.ExtraDenoms = append(s.Config.Genesis.ExtraDenoms, GiantDenomA, GiantDenomB)
		}
	}
	if rng.Chance(0.4) || prop == "C07" || prop == "C17" {
		s.Config.Genesis.ExtraDenoms = append(s.Config.Genesis.ExtraDenoms, SoleDenom)
		g.sole = true
	}
	if (prop == "C07" || prop == "C17") && rng.Chance(0.2) {
		s.Config.Genesis.BurnFunded = true // coins wait at the burn address from the first block on
	}
	if rng.Chance(0.5) {
		s.Config.LegacyVersionMap = true
	}
	if rng.Chance(0.25) {
		s.Config.Genesis.DropEmptySections = true // a genesis file that leaves out the modules whose section would be {}
	}
	if prop == "C09" && rng.Chance(0.15) {
		s.Config.Genesis.LagCounters = true // valid but not self-consistent: record counters behind the records listed
	}
	if rng.Chance(0.5) {
		s.Config.TZ = []string{"Asia/Seoul", "America/St_Johns", "Pacific/Kiritimati", "America/Los_Angeles"}[rng.Intn(4)]
	}
	if rng.Chance(0.4) {
		s.Config.EnvPerNode = true
	}
	if rng.Chance(0.3) {
		// chains that do not start at height 1: heights around encoding and arithmetic boundaries
		s.Config.InitialHeight = []int64{2, 100, 255, 65535, 1<<31 - 3, 1<<32 - 2, 1 << 53}[rng.Intn(7)]
	}
	g.now = time.Unix(s.Config.Genesis.TimeUnix, 0).UTC()
	g.plan = NewModel()
	if rng.Chance(g.p.Seeded) {
		g.seedGenesis(&s.Config.Genesis)
	}
	nBlocks := rng.Range(g.p.Blocks[0], g.p.Blocks[1])
	if g.vlong {
		// a genesis with a 65 5xx-record topic makes every step expensive (exports, per-transaction state extraction):
		// a short run of appends that crosses the 2^16 boundary, one bootstrap from an export, nothing else
		nBlocks = rng.Range(3, 5)
		q := *g.p
		q.W = map[string]int{"aol": 12, "aolAdv": 1, "hquery": 1}
		q.TxPerBlock = [2]int{2, 5}
		q.PBootstrap, q.PUpgrade, q.PCrash, q.PLag, q.PReconfig = 0.25, 0, 0.1, 0, 0
		g.p = &q
	}
	upgradeAt := -1
	if rng.Chance(g.p.PUpgrade) {
		upgradeAt = rng.Range(2, nBlocks-1)
	}
	// half of the upgrades come the way they do on a live chain: a governance proposal carrying MsgSoftwareUpgrade,
	// executed by x/gov when the voting period ends. Every simulated node runs the binary that has the upgrade handler,
	// and x/upgrade refuses to run that binary while the plan is still in the future ("BINARY UPDATED BEFORE TRIGGER"),
	// so the proposal is timed to pass in the EndBlock right before the plan height: submitted two 5 s blocks earlier.
	viaGov := upgradeAt >= 2 && rng.Chance(0.5)
	skippedFirst := false
	if upgradeAt >= 0 && rng.Chance(0.25) {
		// the operators have agreed to skip this upgrade: every node runs with --unsafe-skip-upgrades=<plan height>
		h0 := s.Config.InitialHeight
		if h0 < 1 {
			h0 = 1
		}
		s.Config.SkipUpgradeHeights = []int64{h0 + int64(upgradeAt) + 1}
		if rng.Chance(0.5) && upgradeAt+5 < nBlocks {
			// two stages, as on a chain where a proposal named a release that was never built: that plan is skipped by
			// agreement (its upgrade-info.json stays on disk), and the real v2.2.1 plan comes a few blocks later
			skippedFirst = true
			viaGov = false
		}
	}
	earlyAt, earlyAhead := -1, 0
	if upgradeAt < 0 && nBlocks >= 8 && rng.Chance(map[bool]float64{true: 0.3, false: 0.1}[prop == "C10" || prop == "C19"]) {
		// a plan named after a release that was never built, due a few blocks ahead, at a height every operator has put into
		// --unsafe-skip-upgrades: it sits in the committed state while nodes crash and restart, and is dropped at its height
		earlyAt, earlyAhead = rng.Range(1, nBlocks-6), rng.Range(2, 4)
		h0 := s.Config.InitialHeight
		if h0 < 1 {
			h0 = 1
		}
		s.Config.SkipUpgradeHeights = []int64{h0 + int64(earlyAt) + 1 + int64(earlyAhead)}
	}
	fams, ws := weightList(g.p.W)
	for b := 0; b < nBlocks; b++ {
		if b == earlyAt {
			g.steps = append(g.steps, Step{K: "planahead", Ahead: earlyAhead})
		}
		if earlyAt >= 0 && b > earlyAt && b <= earlyAt+earlyAhead && rng.Chance(0.5) {
			g.steps = append(g.steps, Step{K: "restart0"})
		}
		if viaGov && b == upgradeAt-2 {
			h0 := s.Config.InitialHeight
			if h0 < 1 {
				h0 = 1
			}
			g.nProposals++
			sub := &TxSpec{Gas: 2_000_000, Msgs: []MsgSpec{{T: "gov.SubmitUpgrade", F: map[string]string{"proposer": g.addr(rng.Intn(NumAccounts)), "name": "v2.2.1", "height": fmt.Sprint(h0 + int64(upgradeAt) + 1)},
				Coins: []CoinSpec{{Denom: FeeDenom, Amount: "1"}}}}}
			vote := &TxSpec{Gas: 2_000_000, Msgs: []MsgSpec{{T: "gov.Vote", F: map[string]string{"proposal": fmt.Sprint(g.nProposals), "voter": g.addr(0), "option": "yes"}}}}
			g.emit(sub)
			g.emit(vote)
			sub.Hold, vote.Hold = 0, 0
		}
		n := rng.Range(g.p.TxPerBlock[0], g.p.TxPerBlock[1])
		for i := 0; i < n; i++ {
			g.family(fams[rng.Pick(ws)])
		}
		g.faults(b, nBlocks)
		if skippedFirst && b == upgradeAt+3 {
			g.steps = append(g.steps, Step{K: "upgrade"})
		}
		if skippedFirst && b == upgradeAt+2 && rng.Chance(0.7) {
			// a restart while the upgrade-info.json of the skipped plan is still on disk
			g.steps = append(g.steps, Step{K: "restart0"})
		}
		if b == upgradeAt {
			if skippedFirst {
				g.steps = append(g.steps, Step{K: "upgrade", PlanName: "v9.9.9-never-built"})
			} else if !viaGov {
				g.steps = append(g.steps, Step{K: "upgrade"})
			}
			g.upgraded = true
			if rng.Chance(0.5) && g.nrep > 1 {
				g.steps = append(g.steps, Step{K: "reconfig", Replica: rng.Range(1, g.nrep-1), Cfg: cfgPtr(g.randomCfg()), NoInfo: rng.Chance(0.5)})
			}
		}
		dt := int64(5 * time.Second)
		inVote := viaGov && b >= upgradeAt-2 && b <= upgradeAt
		if inVote {
			// no clock jumps while the proposal is being voted on: the 10 s voting period ends two blocks after submission
		} else if rng.Chance(g.p.PJump) {
			dt = []int64{1, int64(time.Second), int64(3 * time.Hour), int64(400 * 24 * time.Hour), int64(20 * 365 * 24 * time.Hour)}[rng.Intn(5)]
		}
		take := 0
		if rng.Chance(0.1) && !inVote {
			take = rng.Range(1, 3)
		}
		g.now = g.now.Add(time.Duration(dt))
		g.steps = append(g.steps, Step{K: "block", DtNs: dt, Take: take})
	}
	s.Steps = g.steps
	return s
}

func boolInt(b bool) int {
	if b {
		return 1
	}
	return 0
}
func cfgPtr(c NodeCfg) *NodeCfg { return &c }

func weightList(w map[string]int) ([]string, []int) {
	ks := make([]string, 0, len(w))
	for k := range w {
		ks = append(ks, k)
	}
	sort.Strings(ks)
	ws := make([]int, len(ks))
	for i, k := range ks {
		ws[i] = w[k]
	}
	return ks, ws
}

func (g *Gen) randomCfg() NodeCfg {
	r := g.rng
	return NodeCfg{
		Pruning:      []string{"", "nothing", "everything", "custom"}[r.Intn(4)],
		IAVLCache:    []int{0, -1, 1, 100}[r.Intn(4)],
		FastNodeOff:  r.Chance(0.3),
		InterBlock:   r.Chance(0.3),
		MinGasPrices: []string{"", "", "5umed"}[r.Intn(3)],
		InvCheck:     boolInt(r.Chance(0.3)),
		Storm:        r.Chance(0.4),
	}
}

func (g *Gen) faults(b, nBlocks int) {
	r := g.rng
	if g.nrep > 1 {
		if r.Chance(g.p.PCrash) {
			rep := r.Range(1, g.nrep-1)
			kind := []string{"abci", "write", "after_commit"}[r.Pick([]int{4, 5, 1})]
			at := &CrashAt{Kind: kind, Loss: []string{"kill", "power"}[r.Intn(2)]}
			switch kind {
			case "abci":
				at.N = r.Range(0, 7)
			case "write":
				at.N = r.Range(1, 26)
			}
			g.steps = append(g.steps, Step{K: "crash", Replica: rep, At: at})
		}
		if r.Chance(g.p.PLag) {
			g.steps = append(g.steps, Step{K: "lag", Replica: r.Range(1, g.nrep-1), Blocks: r.Range(1, 5)})
		}
		if r.Chance(g.p.PReconfig) {
			g.steps = append(g.steps, Step{K: "reconfig", Replica: r.Range(1, g.nrep-1), Cfg: cfgPtr(g.randomCfg())})
		}
	}
	if b > 0 && r.Chance(g.p.PBootstrap) {
		g.steps = append(g.steps, Step{K: "bootstrap"})
	}
	if b > 0 && r.Chance(g.p.PRestart0) {
		// the reference replica is stopped cleanly and started again on its database: everything it keeps in process
		// memory only is gone, and the per-transaction oracles judge what it does next
		g.steps = append(g.steps, Step{K: "restart0"})
	}
}

// ---------------------------------------------------------------------------------------------
// emitting transactions (and planning their effect)

func (g *Gen) emit(t *TxSpec) int {
	g.next++
	id := g.next
	if t.Modes == nil && g.rng.Chance(g.p.PAmino) {
		t.Modes = []SigMode{ModeAmino, ModeAmino}
	}
	if t.Hold == 0 && g.rng.Chance(g.p.PHold) {
		t.Hold = g.rng.Range(1, 3)
	}
	switch g.rng.Intn(14) {
	case 0:
		t.FeeAmt = "0"
	case 1:
		t.FeeAmt = "1"
	case 2:
		t.FeeAmt = "987654321"
	case 3:
		if g.hasAtom { // the declared fee in another denomination
			t.FeeDen, t.FeeAmt = "uatom", "7"
		}
	case 4:
		if g.hasAtom { // a fee declared in two denominations
			t.Fee2Den, t.Fee2Amt = "uatom", "50"
		}
	case 5:
		if g.whale && g.rng.Chance(0.5) { // a declared fee at and beyond the int64 / uint64 boundaries (every account can afford it)
			t.FeeDen, t.FeeAmt = WhaleDenom, []string{"9223372036854775807", "9223372036854775808", "18446744073709551615", "18446744073709551616"}[g.rng.Intn(4)]
		}
	}
	if t.Timeout == 0 && t.ReplayOf == 0 && g.rng.Chance(0.03) {
		// a timeout height: already passed when the transaction makes it into a block (refused by every node, with the same
		// result everywhere), or still ahead
		t.Timeout = []int{-1, -1, -3, 1, 10}[g.rng.Intn(5)]
	}
	if t.Granter == "" && t.ReplayOf == 0 && g.rng.Chance(map[bool]float64{true: 0.08, false: 0.015}[g.prop == "C15"]) {
		// the fee_granter field: another account is asked to pay the fee - one of the transaction's other signers (the
		// writer of a sponsored append), or anybody. No allowance has been granted, so the transaction must be refused.
		t.Granter = g.addr(g.rng.Intn(NumAccounts))
		for i := range t.Msgs {
			if w := t.Msgs[i].F["writer"]; t.Msgs[i].T == "aol.AddRecord" && t.Msgs[i].F["fee_payer"] != "" && g.rng.Chance(0.7) {
				t.Granter = w
			}
		}
	}
	if t.Gas == 0 && t.ReplayOf == 0 && g.rng.Chance(map[bool]float64{true: 0.12, false: 0.04}[g.prop == "C15"]) {
		// a gas limit somewhere between "not enough for the ante chain" and "just enough": the meter may run out at any
		// store access inside a handler, after some of its writes
		t.Gas = uint64(g.rng.Range(40_000, 160_000))
		if len(t.Msgs) > 1 {
			t.Gas += uint64(g.rng.Range(0, 120_000))
		}
	}
	// the standard delegation path with no delegation needed: the signer wraps its own single message in MsgExec
	if len(t.Msgs) == 1 && t.SignOver == nil && t.Signers == nil && t.ReplayOf == 0 && customURLs[t.Msgs[0].T] != "" && g.rng.Chance(0.06) {
		if who := selfActor(&t.Msgs[0]); who != "" {
			t.Msgs = []MsgSpec{{T: "authz.Exec", F: map[string]string{"grantee": who}, Inner: []MsgSpec{t.Msgs[0]}}}
		}
	}
	g.steps = append(g.steps, Step{K: "tx", ID: id, Tx: t})
	g.specs[id] = t
	// plan: honest transactions are assumed to be applied in order
	bc := &BuildCtx{Env: g.env, BlockTime: g.now.Add(5 * time.Second),
		DidSeq: func(d string) (uint64, bool) {
			if e := g.plan.Did[d]; e != nil {
				return e.Seq, true
			}
			return 0, false
		},
		DidDoc: func(d string) *didtypes.DIDDocument {
			if e := g.plan.Did[d]; e != nil && !e.Tomb {
				return e.Doc
			}
			return nil
		},
		Built: func(tx, m int) sdk.Msg {
			if ms := g.built[tx]; m >= 0 && m < len(ms) {
				return ms[m]
			}
			return nil
		}}
	var msgs []sdk.Msg
	func() {
		defer func() { recover() }()
		for i := range t.Msgs {
			msgs = append(msgs, bc.Build(&t.Msgs[i]))
		}
	}()
	g.built[id] = msgs
	if t.SignOver == nil && t.Signers == nil && t.ReplayOf == 0 && !t.BadChain && len(t.SeqDelta) == 0 {
		m := g.plan.Clone()
		ok := true
		for _, ms := range msgs {
			if !IsCustomMsg(ms) || StatelessVerdict(ms) == Invalid {
				ok = false
				break
			}
			if _, err := m.Apply(ms, bc.BlockTime); err != nil {
				ok = false
				break
			}
		}
		if ok && len(msgs) > 0 {
			g.plan = m
		}
	}
	return id
}

// selfActor: the single account a message names as its actor (empty for two-signer add-records)
func selfActor(m *MsgSpec) string {
	if m.T == "aol.AddRecord" {
		if m.F["fee_payer"] != "" && m.F["fee_payer"] != m.F["writer"] {
			return ""
		}
		return m.F["writer"]
	}
	for _, k := range []string{"owner", "from", "creator", "updater", "remover", "sender", "burner"} {
		if v, ok := m.F[k]; ok {
			return v
		}
	}
	return ""
}

func (g *Gen) tx(msgs ...MsgSpec) int { return g.emit(&TxSpec{Msgs: msgs}) }

func M(t string, kv ...string) MsgSpec {
	f := map[string]string{}
	for i := 0; i+1 < len(kv); i += 2 {
		f[kv[i]] = kv[i+1]
	}
	return MsgSpec{T: t, F: f}
}

// --- planning helpers over the plan model

func (g *Gen) planTopics() (out [][2]string) { // (owner bech32, topic) for owners that are accounts
	for _, o := range sortedKeys(g.plan.AolOwners) {
		if g.env.AccByAddr(sdk.AccAddress([]byte(o))) == nil {
			continue
		}
		names := make([]string, 0)
		for n := range g.plan.Aol[o] {
			names = append(names, n)
		}
		sort.Strings(names)
		for _, n := range names {
			out = append(out, [2]string{sdk.AccAddress([]byte(o)).String(), n})
		}
	}
	return
}

func (g *Gen) planWriters(owner, topic string) []string {
	o, _ := addrOK(owner)
	ts := g.plan.Aol[string(o)][topic]
	if ts == nil {
		return nil
	}
	var out []string
	for _, w := range sortedKeysW(ts.Writers) {
		out = append(out, sdk.AccAddress([]byte(w)).String())
	}
	return out
}

func (g *Gen) family(f string) {
	switch f {
	case "aol":
		g.famAol()
	case "aolAdv":
		g.famAolAdv()
	case "did":
		g.famDid()
	case "didAdv":
		g.famDidAdv()
	case "pnft":
		g.famPnft()
	case "gov":
		g.famGov()
	case "crisis":
		g.famCrisis()
	case "group":
		g.famGroup()
	case "staking":
		g.famStaking()
	case "multiDefect":
		g.famMultiDefect()
	case "pnftAdv":
		g.famPnftAdv()
	case "bank":
		g.famBank()
	case "burn":
		g.famBurn()
	case "vest":
		g.famVest()
	case "authz":
		g.famAuthz()
	case "boundary":
		g.famBoundary()
	case "hostile":
		g.famHostile()
	case "tamper":
		g.famTamper()
	case "replay":
		g.famReplay()
	case "multi":
		g.famMulti()
	case "hquery":
		g.famHostileQuery()
	case "rollback":
		g.famRollback()
	}
}

func randBytesHex(r *PRNG, lens []int) string {
	n := lens[r.Intn(len(lens))]
	return hex.EncodeToString(r.Bytes(n))
}

func (g *Gen) recordSpec(owner, topic, writer, feePayer string) MsgSpec {
	m := M("aol.AddRecord", "topic", topic, "owner", owner, "writer", writer)
	if feePayer != "" {
		m.F["fee_payer"] = feePayer
	}
	m.Key = randBytesHex(g.rng, []int{0, 1, 8, 70})
	m.Value = randBytesHex(g.rng, []int{0, 1, 32, 500, 5000})
	return m
}

// punctName: now and then a name with one ASCII character from outside the documented alphabet, in particular the
// neighbours of its ranges ('/' sits between '-' '.' and '0', ':' after '9', '@' before 'A', '[' after 'Z', '`' before
// 'a', '{' after 'z')
func (g *Gen) punctName(name string) string {
	if g.rng.Chance(0.1) {
		const punct = "/:@[`{+,;<=>?\\]^|}~!#$%&'()* \""
		c := punct[g.rng.Intn(len(punct))]
		if g.rng.Chance(0.35) {
			c = '/' // the separator of the genesis file's map keys
		}
		return "t" + string(c) + "x"
	}
	return name
}

func (g *Gen) famAol() {
	r := g.rng
	topics := g.planTopics()
	switch {
	case len(topics) == 0 || r.Chance(0.15):
		o := g.addr(r.Intn(4))
		name := g.punctName(topicPool[r.Intn(len(topicPool))])
		g.tx(M("aol.CreateTopic", "topic", name, "desc", []string{"", "d", strings.Repeat("D", 5000)}[r.Pick([]int{3, 5, 1})], "owner", o))
	default:
		t := topics[r.Intn(len(topics))]
		for _, c := range topics {
			if c[1] == "vlong" && r.Chance(0.4) {
				t = c // the topic that is about to cross the 2^16 boundary gets most of the appends
			}
		}
		ws := g.planWriters(t[0], t[1])
		switch r.Pick([]int{3, 2, 8}) {
		case 0:
			w := g.addr(r.Intn(6))
			if r.Chance(0.25) { // a writer need not be a 20-byte account: module/ADR-028 addresses are 32 bytes, any 1..255 is legal
				w = sdk.AccAddress(Keyed(7, "oddwriter", uint64(r.Intn(6))).Bytes([]int{1, 19, 21, 32, 64, 255}[r.Intn(6)])).String()
				if r.Chance(0.3) {
					// addresses at the edges of the key space: all 0xff (no successor of the same length), ending in 0xff, all zero
					ff := bytes.Repeat([]byte{0xff}, []int{1, 20, 32}[r.Intn(3)])
					switch r.Intn(3) {
					case 1:
						ff = append(Keyed(7, "ff-tail", uint64(r.Intn(3))).Bytes(19), 0xff)
					case 2:
						ff = make([]byte, []int{1, 20}[r.Intn(2)])
					}
					w = sdk.AccAddress(ff).String()
				}
			}
			g.tx(M("aol.AddWriter", "topic", t[1], "owner", t[0], "writer", w, "moniker", g.punctName([]string{"", "mon", "m-._", strings.Repeat("m", 70)}[r.Intn(4)]), "desc", []string{"", "writer"}[r.Intn(2)]))
		case 1:
			if len(ws) > 0 {
				g.tx(M("aol.DeleteWriter", "topic", t[1], "owner", t[0], "writer", ws[r.Intn(len(ws))]))
			}
		case 2:
			if len(ws) > 0 {
				w := ws[r.Intn(len(ws))]
				fp := ""
				if r.Chance(0.25) {
					fp = g.addr(r.Intn(NumAccounts))
					if r.Chance(0.35) {
						fp = t[0] // the topic's owner sponsors its writer
					}
				}
				spec := &TxSpec{Msgs: []MsgSpec{g.recordSpec(t[0], t[1], w, fp)}}
				if fp != "" && fp != w && r.Chance(0.3) {
					spec.Modes = []SigMode{ModeDirect, ModeAux}
				}
				twice := r.Chance(0.1)
				if twice && r.Chance(0.5) {
					// the same reading reported twice: two appends with identical writer, key and value are two records
					spec.Msgs = append(spec.Msgs, spec.Msgs[0])
					twice = false
				}
				g.emit(spec)
				if twice {
					again := *spec
					again.Hold = 0
					g.emit(&again)
				}
			}
		}
	}
}

func (g *Gen) famAolAdv() {
	r := g.rng
	topics := g.planTopics()
	if len(topics) == 0 {
		g.famAol()
		return
	}
	t := topics[r.Intn(len(topics))]
	ws := g.planWriters(t[0], t[1])
	stranger := g.addr(6 + r.Intn(3))
	switch r.Intn(11) {
	case 9, 10: // an address that is not (or no longer) a writer appends, with a LISTED writer of the same topic as the fee payer
		if len(ws) > 0 {
			payer := ws[r.Intn(len(ws))]
			if r.Chance(0.3) {
				payer = t[0] // the topic's owner pays for (and co-signs) the append of somebody who is not a writer
			}
			who := stranger
			if len(ws) > 1 && r.Chance(0.5) {
				// a writer the owner has just removed
				who = ws[(indexOf(ws, payer)+1)%len(ws)]
				g.tx(M("aol.DeleteWriter", "topic", t[1], "owner", t[0], "writer", who))
			}
			if who != payer && g.env.AccByAddr(mustAddr(who)) != nil && g.env.AccByAddr(mustAddr(payer)) != nil {
				g.tx(g.recordSpec(t[0], t[1], who, payer))
				g.tx(g.recordSpec(t[0], t[1], payer, who)) // and the other way round: the listed writer writes, the other one pays
			}
		}
	case 0: // append by a never-authorised address
		g.tx(g.recordSpec(t[0], t[1], stranger, ""))
	case 1: // remove a writer, then the former writer appends (same or next block)
		if len(ws) > 0 {
			w := ws[r.Intn(len(ws))]
			if r.Chance(0.5) {
				g.tx(g.recordSpec(t[0], t[1], w, "")) // the latest record of the topic is this writer's, from this very block
			}
			g.tx(M("aol.DeleteWriter", "topic", t[1], "owner", t[0], "writer", w))
			g.tx(g.recordSpec(t[0], t[1], w, ""))
			if r.Chance(0.5) {
				g.tx(M("aol.AddWriter", "topic", t[1], "owner", t[0], "writer", w, "moniker", "again"))
				g.tx(g.recordSpec(t[0], t[1], w, ""))
			}
		}
	case 2: // writer-list change signed by a non-owner, naming the owner inside the message
		acc := g.env.AccByAddr(mustAddr(stranger))
		g.emit(&TxSpec{Msgs: []MsgSpec{M("aol.AddWriter", "topic", t[1], "owner", t[0], "writer", stranger, "moniker", "evil")}, Signers: []int{acc.Idx}})
	case 3: // non-owner names itself as owner of somebody else's topic
		g.tx(M("aol.AddWriter", "topic", t[1], "owner", stranger, "writer", stranger))
	case 4: // delete writer by the writer itself
		if len(ws) > 0 {
			w := ws[r.Intn(len(ws))]
			if acc := g.env.AccByAddr(mustAddr(w)); acc != nil {
				g.emit(&TxSpec{Msgs: []MsgSpec{M("aol.DeleteWriter", "topic", t[1], "owner", t[0], "writer", w)}, Signers: []int{acc.Idx}})
			}
		}
	case 5: // add-record with a fee payer where only one of the two signs
		if len(ws) > 0 {
			w := ws[r.Intn(len(ws))]
			fp := g.addr(r.Intn(NumAccounts))
			who := w
			if r.Chance(0.5) {
				who = fp
			}
			if acc := g.env.AccByAddr(mustAddr(who)); acc != nil {
				g.emit(&TxSpec{Msgs: []MsgSpec{g.recordSpec(t[0], t[1], w, fp)}, Signers: []int{acc.Idx}})
			}
		}
	case 6: // record signed by the owner naming a listed writer
		if len(ws) > 0 {
			if acc := g.env.AccByAddr(mustAddr(t[0])); acc != nil && ws[0] != t[0] {
				g.emit(&TxSpec{Msgs: []MsgSpec{g.recordSpec(t[0], t[1], ws[0], "")}, Signers: []int{acc.Idx}})
			}
		}
	case 7: // same topic name under a different owner, and duplicates
		g.tx(M("aol.CreateTopic", "topic", t[1], "owner", stranger))
		emptied := false
		if len(ws) > 0 && len(ws) <= 3 && r.Chance(0.5) {
			// ... of a topic that has lost every writer (its records stay): it still exists
			for _, w := range ws {
				g.tx(M("aol.DeleteWriter", "topic", t[1], "owner", t[0], "writer", w))
			}
			emptied = true
		}
		g.tx(M("aol.CreateTopic", "topic", t[1], "owner", t[0], "desc", "dup"))
		if emptied {
			g.tx(M("aol.AddWriter", "topic", t[1], "owner", t[0], "writer", ws[0], "moniker", "back"))
			if acc := g.env.AccByAddr(mustAddr(ws[0])); acc != nil {
				g.tx(g.recordSpec(t[0], t[1], ws[0], ""))
				g.tx(g.recordSpec(t[0], t[1], ws[0], ""))
			}
		}
	case 8: // stale sequence / wrong chain id
		spec := &TxSpec{Msgs: []MsgSpec{M("aol.AddWriter", "topic", t[1], "owner", t[0], "writer", stranger)}}
		if r.Chance(0.5) {
			spec.SeqDelta = []int{[]int{-1, 1, 7}[r.Intn(3)]}
		} else {
			spec.BadChain = true
		}
		g.emit(spec)
	}
}

func mustAddr(s string) sdk.AccAddress { a, _ := sdk.AccAddressFromBech32(s); return a }

// --- DID

func (g *Gen) didDoc(did string, keys []int, style int) *DocSpec {
	r := g.rng
	d := &DocSpec{Id: did}
	for i, k := range keys {
		mid := fmt.Sprintf("%s#key%d", did, k)
		typ := "EcdsaSecp256k1VerificationKey2019"
		if r.Chance(0.3) {
			typ = "Secp256k1VerificationKey2018"
		}
		if r.Chance(0.06) {
			// a fragment is any run of 1-128 non-blank characters: also the ones JSON, HTML and escape sequences give a meaning to
			mid += []string{"\",\"" + did + "#key" + fmt.Sprint((k+1)%NumDidKeys), "\"", "\\", "\\u0041", "<&>", "\",\"", "\"}", ",", "%22", "'", "\x1f", "\x7f", "\v", "\x01\x02", "\u2028", "\U000e0001"}[r.Intn(16)]
		}
		ctl := did
		if r.Chance(0.15) {
			ctl = g.env.Dids[(k+3)%NumDidKeys] // a key held for the subject by somebody else (guardian, organisation): nothing ties a method's controller to the DID
		}
		vm := VMSpec{Id: mid, Type: typ, Controller: ctl, Key: k}
		if style == 1 && i == len(keys)-1 && len(keys) > 1 {
			d.Auth = append(d.Auth, RelSpec{VM: &vm}) // dedicated authentication method
		} else {
			d.VMs = append(d.VMs, vm)
			d.Auth = append(d.Auth, RelSpec{Ref: mid})
		}
	}
	if len(d.VMs) == 0 && len(keys) > 0 {
		d.VMs = append(d.VMs, VMSpec{Id: fmt.Sprintf("%s#key%d", did, keys[0]), Type: "EcdsaSecp256k1VerificationKey2019", Controller: did, Key: keys[0]})
		d.Auth = []RelSpec{{Ref: d.VMs[0].Id}}
	}
	if r.Chance(0.07) {
		d.NoContext = true // a document without @context is legal (contexts are only checked when present)
	} else if r.Chance(0.3) {
		d.Contexts = []string{w3cContext, "https://example.org/ctx/v1"}
		if r.Chance(0.4) {
			// several more contexts, in no particular order (the order is part of the document)
			d.Contexts = append(d.Contexts, "https://w3id.org/security/suites/secp256k1-2019/v1", "https://a.example/first", "https://example.org/ctx/v0")[:r.Range(3, 5)]
		}
	}
	if r.Chance(0.2) {
		d.Controller = []string{did}
	} else if r.Chance(0.25) {
		// controlled by another identifier (possibly registered, possibly in the same genesis)
		d.Controller = []string{g.env.Dids[r.Intn(NumDidKeys)]}
		if r.Chance(0.3) {
			d.Controller = append(d.Controller, g.env.Dids[r.Intn(NumDidKeys)])
		}
	}
	if r.Chance(0.3) {
		d.Services = []SvcSpec{{Id: "svc1", Type: "LinkedDomains", Endpoint: "https://example.org"}}
		if r.Chance(0.4) {
			// a longer service list, in no particular order, possibly with an id declared twice (nothing forbids it)
			for i := r.Range(2, 6); i > 0; i-- {
				d.Services = append(d.Services, SvcSpec{Id: fmt.Sprintf("svc%d", r.Intn(5)), Type: []string{"LinkedDomains", "DIDCommMessaging"}[r.Intn(2)], Endpoint: fmt.Sprintf("https://e%d.example", r.Intn(9))})
			}
		}
	}
	if r.Chance(0.3) { // keys under other relationships only
		k := r.Intn(NumDidKeys)
		mid := fmt.Sprintf("%s#assert%d", did, k)
		d.VMs = append(d.VMs, VMSpec{Id: mid, Type: "EcdsaSecp256k1VerificationKey2019", Controller: did, Key: k})
		d.Assertion = append(d.Assertion, RelSpec{Ref: mid})
		if r.Chance(0.5) {
			d.KeyAgree = append(d.KeyAgree, RelSpec{Ref: mid})
		}
	}
	if r.Chance(0.15) { // a non-secp256k1 key listed under authentication
		k := r.Intn(NumDidKeys)
		mid := fmt.Sprintf("%s#ed%d", did, k)
		d.VMs = append(d.VMs, VMSpec{Id: mid, Type: "Ed25519VerificationKey2018", Controller: did, Key: k})
		d.Auth = append(d.Auth, RelSpec{Ref: mid})
	}
	return d
}

// authKeys returns (key index, method id) pairs usable as proof for the planned state of did.
func (g *Gen) authKeys(did string) (keys []int, mids []string) {
	e := g.plan.Did[did]
	if e == nil || e.Tomb {
		return
	}
	for i := range e.Doc.Authentications {
		rel := e.Doc.Authentications[i]
		id := rel.GetVerificationMethodId()
		if vm := rel.GetVerificationMethod(); vm != nil {
			id = vm.Id
		}
		var ki int
		if n, _ := fmt.Sscanf(id[strings.Index(id, "#")+1:], "key%d", &ki); n == 1 {
			keys = append(keys, ki)
			mids = append(mids, id)
		}
	}
	return
}

func (g *Gen) planDids(active bool) []string {
	var out []string
	for d, e := range g.plan.Did {
		if e.Tomb != !active {
			continue
		}
		out = append(out, d)
	}
	sort.Strings(out)
	return out
}

func (g *Gen) famDid() {
	r := g.rng
	act := g.planDids(true)
	if len(act) == 0 || r.Chance(0.2) {
		k := r.Intn(NumDidKeys)
		did := g.env.Dids[k]
		keys := []int{k}
		if r.Chance(0.4) {
			keys = append(keys, (k+1+r.Intn(3))%NumDidKeys)
		}
		doc := g.didDoc(did, keys, r.Intn(2))
		sk := keys[0]
		id := g.tx(MsgSpec{T: "did.Create", F: map[string]string{"did": did, "from": g.addr(r.Intn(NumAccounts))}, Doc: doc,
			Proof: &ProofSpec{Key: sk, MethodID: fmt.Sprintf("%s#key%d", did, sk)}})
		g.didTx = append(g.didTx, didRef{id, did})
		return
	}
	did := act[r.Intn(len(act))]
	keys, mids := g.authKeys(did)
	if len(keys) == 0 {
		return
	}
	i := r.Intn(len(keys))
	if r.Chance(0.12) {
		// two messages for the same DID in ONE transaction: the second proof is made over the sequence the first one leaves
		from := g.addr(r.Intn(NumAccounts))
		first := MsgSpec{T: "did.Update", F: map[string]string{"did": did, "from": from}, Doc: g.didDoc(did, []int{keys[i]}, 0), Proof: &ProofSpec{Key: keys[i], MethodID: mids[i], Seq: "cur"}}
		var second MsgSpec
		if r.Chance(0.5) {
			second = MsgSpec{T: "did.Update", F: map[string]string{"did": did, "from": from}, Doc: g.didDoc(did, []int{keys[i]}, 0), Proof: &ProofSpec{Key: keys[i], MethodID: mids[i], Seq: "cur+1"}}
		} else {
			second = MsgSpec{T: "did.Deactivate", F: map[string]string{"did": did, "from": from}, Proof: &ProofSpec{Key: keys[i], MethodID: mids[i], Seq: "cur+1"}}
		}
		if r.Chance(0.35) {
			// the deactivation comes first: whatever follows it in the same transaction meets a deactivated DID - also a
			// proof made over the sequence the DID had before (what a handler reading a stale entry would accept)
			first = MsgSpec{T: "did.Deactivate", F: map[string]string{"did": did, "from": from}, Proof: &ProofSpec{Key: keys[i], MethodID: mids[i], Seq: "cur"}}
			sq := []string{"cur", "cur", "cur+1"}[r.Intn(3)]
			if r.Chance(0.5) {
				second = MsgSpec{T: "did.Update", F: map[string]string{"did": did, "from": from}, Doc: g.didDoc(did, []int{keys[i]}, 0), Proof: &ProofSpec{Key: keys[i], MethodID: mids[i], Seq: sq}}
			} else {
				second = MsgSpec{T: "did.Deactivate", F: map[string]string{"did": did, "from": from}, Proof: &ProofSpec{Key: keys[i], MethodID: mids[i], Seq: sq}}
			}
		}
		id := g.emit(&TxSpec{Msgs: []MsgSpec{first, second}})
		g.didTx = append(g.didTx, didRef{id, did})
		if second.T == "did.Deactivate" && r.Chance(0.6) { // and straight after it, in the same block: create again
			g.tx(MsgSpec{T: "did.Create", F: map[string]string{"did": did, "from": from}, Doc: g.didDoc(did, []int{keys[i]}, 0), Proof: &ProofSpec{Key: keys[i], MethodID: mids[i], Seq: "0"}})
		}
		return
	}
	if r.Chance(0.15) {
		// an update that re-submits exactly the stored document (still consumes a sequence number)
		id := g.tx(MsgSpec{T: "did.Update", F: map[string]string{"did": did, "from": g.addr(r.Intn(NumAccounts)), "same_doc": "1"}, Doc: g.didDoc(did, []int{keys[i]}, 0),
			Proof: &ProofSpec{Key: keys[i], MethodID: mids[i], Seq: "cur"}})
		g.didTx = append(g.didTx, didRef{id, did})
		return
	}
	if r.Chance(0.8) {
		// update: rotate / add keys
		nk := []int{keys[r.Intn(len(keys))]}
		if r.Chance(0.6) {
			nk = []int{r.Intn(NumDidKeys)}
			if r.Chance(0.5) {
				nk = append(nk, keys[i])
			}
		}
		nk = dedupInts(nk)
		doc := g.didDoc(did, nk, r.Intn(2))
		id := g.tx(MsgSpec{T: "did.Update", F: map[string]string{"did": did, "from": g.addr(r.Intn(NumAccounts))}, Doc: doc,
			Proof: &ProofSpec{Key: keys[i], MethodID: mids[i], Seq: "cur"}})
		g.didTx = append(g.didTx, didRef{id, did})
	} else {
		id := g.tx(MsgSpec{T: "did.Deactivate", F: map[string]string{"did": did, "from": g.addr(r.Intn(NumAccounts))},
			Proof: &ProofSpec{Key: keys[i], MethodID: mids[i], Seq: "cur"}})
		g.didTx = append(g.didTx, didRef{id, did})
	}
}

// caseVariant flips the case of one letter of the method-specific id such that the result is still base58:
// a different, equally valid DID that a case-insensitive comparison would confuse with the original.
func caseVariant(did string, r *PRNG) string {
	const b58 = "123456789ABCDEFGHJKLMNPQRSTUVWXYZabcdefghijkmnopqrstuvwxyz"
	b := []byte(did)
	start := len("did:panacea:")
	var cands []int
	for i := start; i < len(b); i++ {
		c := b[i]
		var f byte
		switch {
		case c >= 'a' && c <= 'z':
			f = c - 32
		case c >= 'A' && c <= 'Z':
			f = c + 32
		default:
			continue
		}
		if strings.IndexByte(b58, f) >= 0 {
			cands = append(cands, i)
		}
	}
	if len(cands) == 0 {
		return did
	}
	i := cands[r.Intn(len(cands))]
	if b[i] >= 'a' {
		b[i] -= 32
	} else {
		b[i] += 32
	}
	return string(b)
}

func indexOf(a []string, x string) int {
	for i, s := range a {
		if s == x {
			return i
		}
	}
	return 0
}

func dedupInts(a []int) []int {
	seen := map[int]bool{}
	var out []int
	for _, x := range a {
		if !seen[x] {
			seen[x] = true
			out = append(out, x)
		}
	}
	return out
}

func (g *Gen) famDidAdv() {
	r := g.rng
	act := g.planDids(true)
	tomb := g.planDids(false)
	from := g.addr(r.Intn(NumAccounts))
	if len(act) == 0 {
		g.famDid()
		return
	}
	did := act[r.Intn(len(act))]
	keys, mids := g.authKeys(did)
	if len(keys) == 0 {
		return
	}
	k, mid := keys[0], mids[0]
	if k < SharedKeys && r.Chance(0.5) {
		from = g.addr(k) // relayed by the account whose key is the DID's authentication key
	}
	other := (k + 5) % NumDidKeys
	upd := func(p *ProofSpec, doc *DocSpec) {
		g.tx(MsgSpec{T: "did.Update", F: map[string]string{"did": did, "from": from}, Doc: doc, Proof: p})
	}
	switch r.Intn(38) {
	case 36, 37: // an Ed25519-typed authentication method whose key is a small-order point (the neutral element, the point of
		// order 2, ...) and the "signature" that verifies for every message under lenient verification rules: whatever key
		// types the registry learns to verify, such a proof binds nothing - not the content, not the sequence
		keyBytes := [][]byte{append([]byte{1}, make([]byte, 31)...), append([]byte{0xec}, append(bytes.Repeat([]byte{0xff}, 30), 0x7f)...), make([]byte, 32)}[r.Intn(3)]
		x := did + "#ed-small"
		doc := g.didDoc(did, []int{k}, 0)
		doc.VMs = append(doc.VMs, VMSpec{Id: x, Type: "Ed25519VerificationKey2018", Controller: did, Key: -1, RawKey: base58.Encode(keyBytes)})
		doc.Auth = append(doc.Auth, RelSpec{Ref: x})
		id := g.tx(MsgSpec{T: "did.Update", F: map[string]string{"did": did, "from": from}, Doc: doc, Proof: &ProofSpec{Key: k, MethodID: mid, Seq: "cur"}})
		g.didTx = append(g.didTx, didRef{id, did})
		degenerate := hex.EncodeToString(append(append([]byte{}, keyBytes...), make([]byte, 32)...))
		id = g.tx(MsgSpec{T: "did.Update", F: map[string]string{"did": did, "from": g.addr(r.Intn(NumAccounts))}, Doc: doc, Proof: &ProofSpec{Key: k, MethodID: x, RawSig: degenerate}})
		g.didTx = append(g.didTx, didRef{id, did})
		g.emit(&TxSpec{Msgs: []MsgSpec{{T: "reuse", OfTx: id, OfMsg: 0}}, Note: "replay of accepted DID message"})
		g.tx(MsgSpec{T: "did.Deactivate", F: map[string]string{"did": did, "from": from}, Proof: &ProofSpec{Key: k, MethodID: x, RawSig: degenerate}})
	case 34, 35: // two secp256k1 methods under ONE id in authentication (nothing requires ids to be unique): the first one signs.
		// Whoever tries the candidates one after the other must stop at the one that verifies - and keep what it returned.
		x := did + "#dup"
		doc := &DocSpec{Id: did, VMs: []VMSpec{{Id: mid, Type: "EcdsaSecp256k1VerificationKey2019", Controller: did, Key: k}},
			Auth: []RelSpec{{Ref: mid}, {VM: &VMSpec{Id: x, Type: "EcdsaSecp256k1VerificationKey2019", Controller: did, Key: k}}, {VM: &VMSpec{Id: x, Type: "EcdsaSecp256k1VerificationKey2019", Controller: did, Key: other}}}}
		id := g.tx(MsgSpec{T: "did.Update", F: map[string]string{"did": did, "from": from}, Doc: doc, Proof: &ProofSpec{Key: k, MethodID: mid, Seq: "cur"}})
		g.didTx = append(g.didTx, didRef{id, did})
		if r.Chance(0.5) {
			g.tx(MsgSpec{T: "did.Deactivate", F: map[string]string{"did": did, "from": from}, Proof: &ProofSpec{Key: k, MethodID: x, Seq: "cur"}})
			g.tx(MsgSpec{T: "did.Create", F: map[string]string{"did": did, "from": from}, Doc: g.didDoc(did, []int{other}, 0), Proof: &ProofSpec{Key: other, MethodID: fmt.Sprintf("%s#key%d", did, other), Seq: "0"}})
		} else {
			upd(&ProofSpec{Key: k, MethodID: x, Seq: "cur"}, doc)
			upd(&ProofSpec{Key: k, MethodID: mid, Seq: "cur"}, doc)
		}
	case 32, 33: // the stored document lists a method of a key type nothing can verify under authentication; an update names it and
		// brings a new document in which that id is a secp256k1 method with the sender's key: the proof is to be checked
		// against the STORED document
		if r.Chance(0.45) {
			// ... or under authentication as a DEDICATED method of such a type, while verificationMethod lists a secp256k1 method
			// of somebody else under the same id (not referenced by authentication): that somebody names the id and signs
			x := did + "#recovery"
			att := (k + 7) % NumDidKeys
			doc := g.didDoc(did, []int{k}, 0)
			doc.VMs = append(doc.VMs, VMSpec{Id: x, Type: "EcdsaSecp256k1VerificationKey2019", Controller: did, Key: att})
			doc.Auth = append(doc.Auth, RelSpec{VM: &VMSpec{Id: x, Type: []string{"Bls12381G1Key2020", "Ed25519VerificationKey2018", "JsonWebKey2020"}[r.Intn(3)], Controller: did, Key: other}})
			id := g.tx(MsgSpec{T: "did.Update", F: map[string]string{"did": did, "from": from}, Doc: doc, Proof: &ProofSpec{Key: k, MethodID: mid, Seq: "cur"}})
			g.didTx = append(g.didTx, didRef{id, did})
			if r.Chance(0.6) {
				upd(&ProofSpec{Key: att, MethodID: x, Seq: "cur"}, g.didDoc(did, []int{att}, 0))
			} else {
				g.tx(MsgSpec{T: "did.Deactivate", F: map[string]string{"did": did, "from": from}, Proof: &ProofSpec{Key: att, MethodID: x, Seq: "cur"}})
			}
			return
		}
		x := did + "#bbs"
		doc := g.didDoc(did, []int{k}, 0)
		doc.VMs = append(doc.VMs, VMSpec{Id: x, Type: []string{"Bls12381G1Key2020", "Ed25519VerificationKey2018", "JsonWebKey2020"}[r.Intn(3)], Controller: did, Key: other})
		doc.Auth = append(doc.Auth, RelSpec{Ref: x})
		id := g.tx(MsgSpec{T: "did.Update", F: map[string]string{"did": did, "from": from}, Doc: doc, Proof: &ProofSpec{Key: k, MethodID: mid, Seq: "cur"}})
		g.didTx = append(g.didTx, didRef{id, did})
		att := (k + 7) % NumDidKeys
		forged := &DocSpec{Id: did, VMs: []VMSpec{{Id: x, Type: "EcdsaSecp256k1VerificationKey2019", Controller: did, Key: att}}, Auth: []RelSpec{{Ref: x}}}
		upd(&ProofSpec{Key: att, MethodID: x, Seq: "cur"}, forged)
	case 30, 31: // a very large document (nothing limits the size of a service endpoint): sizes around 4 KiB, 16 KiB, 32 KiB, 64 KiB
		doc := g.didDoc(did, []int{k}, 0)
		base := []int{4096, 16384, 32768, 65536, 65536, 65536}[r.Intn(6)]
		doc.Services = []SvcSpec{{Id: "big", Type: "Blob", Endpoint: "https://e.example/"}}
		// pad so that the encoded document ends up within a few dozen bytes of the power of two, on either side
		want := base - 40 + r.Intn(56)
		if have := g.env.BuildDoc(doc).Size(); want > have+4 {
			doc.Services[0].Endpoint += strings.Repeat("p", want-have-3)
		}
		id := g.emit(&TxSpec{Gas: 30_000_000, Msgs: []MsgSpec{{T: "did.Update", F: map[string]string{"did": did, "from": from}, Doc: doc, Proof: &ProofSpec{Key: k, MethodID: mid, Seq: "cur"}}}})
		g.didTx = append(g.didTx, didRef{id, did})
		// the same message again, and another update over the sequence the first one was made over
		g.emit(&TxSpec{Gas: 30_000_000, Msgs: []MsgSpec{{T: "reuse", OfTx: id, OfMsg: 0}}, Note: "replay of accepted DID message"})
		upd(&ProofSpec{Key: k, MethodID: mid, Seq: "cur-1"}, g.didDoc(did, []int{k}, 0))
	case 28, 29: // a DID that names another DID as its controller: the controller's keys are not keys of this DID
		ci := (k + 6) % NumDidKeys
		ctl := g.env.Dids[ci]
		doc := g.didDoc(did, []int{k}, 0)
		doc.Controller = []string{ctl}
		id := g.tx(MsgSpec{T: "did.Update", F: map[string]string{"did": did, "from": from}, Doc: doc, Proof: &ProofSpec{Key: k, MethodID: mid, Seq: "cur"}})
		g.didTx = append(g.didTx, didRef{id, did})
		if g.plan.Did[ctl] == nil {
			id = g.tx(MsgSpec{T: "did.Create", F: map[string]string{"did": ctl, "from": from}, Doc: g.didDoc(ctl, []int{ci}, 0), Proof: &ProofSpec{Key: ci, MethodID: fmt.Sprintf("%s#key%d", ctl, ci), Seq: "0"}})
			g.didTx = append(g.didTx, didRef{id, ctl})
		}
		cm := fmt.Sprintf("%s#key%d", ctl, ci)
		if ks, ms := g.authKeys(ctl); len(ks) > 0 {
			ci, cm = ks[0], ms[0]
		}
		// the controller's key, naming the controller's own method, over this DID's content and sequence - or over the
		// sequence the CONTROLLER's entry stands at
		if r.Chance(0.35) {
			nd := g.didDoc(did, []int{k}, 0)
			nd.Controller = []string{ctl} // the new document keeps naming the controller
			cid := g.tx(MsgSpec{T: "did.Update", F: map[string]string{"did": did, "from": from}, Doc: nd, Proof: &ProofSpec{Key: ci, MethodID: cm, Seq: "cur", SeqOfDID: ctl}})
			// ... and the very same message again, in a new transaction (were it accepted, the controller's sequence would not have moved)
			g.emit(&TxSpec{Msgs: []MsgSpec{{T: "reuse", OfTx: cid, OfMsg: 0}}, Note: "the same DID message, relayed again"})
			if r.Chance(0.5) {
				g.emit(&TxSpec{Msgs: []MsgSpec{{T: "reuse", OfTx: cid, OfMsg: 0}}, Note: "the same DID message, relayed again"})
			}
		} else if r.Chance(0.5) {
			upd(&ProofSpec{Key: ci, MethodID: cm, Seq: "cur"}, g.didDoc(did, []int{ci}, 0))
		} else {
			g.tx(MsgSpec{T: "did.Deactivate", F: map[string]string{"did": did, "from": from}, Proof: &ProofSpec{Key: ci, MethodID: cm, Seq: "cur"}})
		}
	case 26, 27: // two methods whose ids end alike after a '#': "<did>#backup#keyK" (another key, no authentication method,
		// listed first) and "<did>#keyK" (the authentication key). Whoever resolves ids by their last segment confuses them.
		shadow := VMSpec{Id: did + "#backup#key" + fmt.Sprint(k), Type: "EcdsaSecp256k1VerificationKey2019", Controller: did, Key: other}
		real := VMSpec{Id: did + "#key" + fmt.Sprint(k), Type: "EcdsaSecp256k1VerificationKey2019", Controller: did, Key: k}
		doc := &DocSpec{Id: did, VMs: []VMSpec{shadow, real}, Auth: []RelSpec{{Ref: real.Id}}, Assertion: []RelSpec{{Ref: shadow.Id}}}
		id := g.tx(MsgSpec{T: "did.Update", F: map[string]string{"did": did, "from": from}, Doc: doc, Proof: &ProofSpec{Key: k, MethodID: mid, Seq: "cur"}})
		g.didTx = append(g.didTx, didRef{id, did})
		// the shadow key names the real method, then its own; then the real key acts
		g.tx(MsgSpec{T: "did.Update", F: map[string]string{"did": did, "from": from}, Doc: g.didDoc(did, []int{other}, 0), Proof: &ProofSpec{Key: other, MethodID: real.Id, Seq: "cur"}})
		g.tx(MsgSpec{T: "did.Deactivate", F: map[string]string{"did": did, "from": from}, Proof: &ProofSpec{Key: other, MethodID: shadow.Id, Seq: "cur"}})
		id = g.tx(MsgSpec{T: "did.Update", F: map[string]string{"did": did, "from": from}, Doc: doc, Proof: &ProofSpec{Key: k, MethodID: real.Id, Seq: "cur"}})
		g.didTx = append(g.didTx, didRef{id, did})
	case 24, 25: // one key held for two subjects by a third party: DIDs A and B both list it under authentication, controller C.
		// A is deactivated with it; the observed proof, and a proof made over the controller's id, are then presented for B
		ia, ib := (k+1)%NumDidKeys, (k+2)%NumDidKeys
		a, b, c := g.env.Dids[ia], g.env.Dids[ib], g.env.Dids[(k+3)%NumDidKeys]
		if g.plan.Did[a] != nil || g.plan.Did[b] != nil {
			return
		}
		gk := (k + 4) % NumDidKeys
		mk := func(d string) *DocSpec {
			vm := VMSpec{Id: d + "#key" + fmt.Sprint(gk), Type: "EcdsaSecp256k1VerificationKey2019", Controller: c, Key: gk}
			return &DocSpec{Id: d, VMs: []VMSpec{vm}, Auth: []RelSpec{{Ref: vm.Id}}}
		}
		for _, d := range []string{a, b} {
			id := g.tx(MsgSpec{T: "did.Create", F: map[string]string{"did": d, "from": from}, Doc: mk(d), Proof: &ProofSpec{Key: gk, MethodID: d + "#key" + fmt.Sprint(gk), Seq: "0"}})
			g.didTx = append(g.didTx, didRef{id, d})
		}
		ma, mb := a+"#key"+fmt.Sprint(gk), b+"#key"+fmt.Sprint(gk)
		g.tx(MsgSpec{T: "did.Deactivate", F: map[string]string{"did": b, "from": g.addr(r.Intn(NumAccounts))}, Proof: &ProofSpec{Key: gk, MethodID: mb, Seq: "cur", Content: []string{a, c}[r.Intn(2)]}})
		id := g.tx(MsgSpec{T: "did.Deactivate", F: map[string]string{"did": a, "from": from}, Proof: &ProofSpec{Key: gk, MethodID: ma, Seq: "cur"}})
		g.didTx = append(g.didTx, didRef{id, a})
		g.tx(MsgSpec{T: "did.Deactivate", F: map[string]string{"did": b, "from": g.addr(r.Intn(NumAccounts))}, Proof: &ProofSpec{Key: gk, MethodID: mb, Seq: "cur", Content: []string{a, c}[r.Intn(2)]}})
	case 22, 23: // an authentication method whose key is well-formed base58 but not a compressed secp256k1 key (65-byte
		// uncompressed form, 32 bytes, 34 bytes, one byte): listing it is legal, nothing can ever be proven with it
		raw := base58.Encode(Keyed(uint64(k), "oddkey", uint64(r.Intn(4))).Bytes([]int{65, 32, 34, 1, 64}[r.Intn(5)]))
		if r.Chance(0.3) {
			raw = base58.Encode(append([]byte{4}, Keyed(uint64(k), "uncompressed", 0).Bytes(64)...))
		}
		oddType := ""
		if r.Chance(0.4) {
			// ... or a perfectly good key under a type nothing can verify: known but not implemented, or not known at all
			// (any non-empty type string is a legal document)
			oddType = []string{"Ed25519VerificationKey2020", "UnheardOfKey2031", "JsonWebKey2020", "X25519KeyAgreementKey2019", "Bls12381G1Key2020", "ecdsasecp256k1verificationkey2019", "EcdsaSecp256k1VerificationKey2019 "}[r.Intn(7)]
		}
		bad := func(d string) VMSpec {
			if oddType != "" {
				return VMSpec{Id: d + "#key" + fmt.Sprint(other) + "-odd", Type: oddType, Controller: d, Key: other}
			}
			return VMSpec{Id: d + "#key" + fmt.Sprint(k) + "-odd", Type: []string{"EcdsaSecp256k1VerificationKey2019", "Secp256k1VerificationKey2018"}[r.Intn(2)], Controller: d, Key: -1, RawKey: raw}
		}
		if r.Chance(0.4) {
			fresh := g.env.Dids[other]
			doc := g.didDoc(fresh, []int{other}, 0)
			b := bad(fresh)
			doc.VMs = append([]VMSpec{b}, doc.VMs...)
			doc.Auth = append([]RelSpec{{Ref: b.Id}}, doc.Auth...)
			g.tx(MsgSpec{T: "did.Create", F: map[string]string{"did": fresh, "from": from}, Doc: doc, Proof: &ProofSpec{Key: other, MethodID: b.Id, Seq: "0"}})
		} else {
			doc := g.didDoc(did, []int{k}, 0)
			b := bad(did)
			doc.VMs = append(doc.VMs, b)
			doc.Auth = append(doc.Auth, RelSpec{Ref: b.Id})
			id := g.tx(MsgSpec{T: "did.Update", F: map[string]string{"did": did, "from": from}, Doc: doc, Proof: &ProofSpec{Key: k, MethodID: mid, Seq: "cur"}})
			g.didTx = append(g.didTx, didRef{id, did})
			// ... and then somebody names that method: with a signature by an unrelated key, with garbage
			p := &ProofSpec{Key: other, MethodID: b.Id, Seq: "cur"}
			if r.Chance(0.4) {
				p.RawSig = hex.EncodeToString(Keyed(uint64(k), "garbage-sig", 1).Bytes(64))
			}
			if r.Chance(0.5) {
				upd(p, g.didDoc(did, []int{other}, 0))
			} else {
				g.tx(MsgSpec{T: "did.Deactivate", F: map[string]string{"did": did, "from": from}, Proof: p})
			}
		}
	case 20, 21: // a genuine proof of one document, carried by an update with ANOTHER document (observed in the mempool, or after
		// some node only simulated the genuine update): whatever a node remembers about proofs it has seen must not matter
		d1 := g.didDoc(did, []int{k}, 0)
		d2 := g.didDoc(did, []int{other}, 0)
		d2.Services = []SvcSpec{{Id: "svc-x", Type: "LinkedDomains", Endpoint: "https://attacker.example"}}
		genuine := MsgSpec{T: "did.Update", F: map[string]string{"did": did, "from": from}, Doc: d1, Proof: &ProofSpec{Key: k, MethodID: mid, Seq: "cur"}}
		forged := MsgSpec{T: "did.Update", F: map[string]string{"did": did, "from": g.addr(r.Intn(NumAccounts))}, Doc: d2, Proof: &ProofSpec{Key: k, MethodID: mid, Seq: "cur", ContentDoc: d1}}
		switch r.Intn(3) {
		case 0:
			g.emitSimulate(&TxSpec{Msgs: []MsgSpec{genuine}}, r.Intn(g.nrep))
		case 1: // the genuine update inside a transaction that fails as a whole
			g.emit(&TxSpec{Msgs: []MsgSpec{genuine, M("aol.AddWriter", "topic", "no-such-topic-rollback", "owner", from, "writer", g.addr(0))}, Note: "rolled back as a whole"})
		}
		g.tx(forged)
	case 18, 19: // C11, a third identifier: every method id carries the did field's prefix, only the document's own id names something else
		x := []string{g.env.Dids[other], caseVariant(did, r), "did:panacea:" + strings.Repeat("1", 32), "not-a-did", did + "x", did[:len(did)-1]}[r.Intn(6)]
		// crossed naming: the listed methods are named under the did field, every relationship is a method embedded
		// under the document's own (other) id, so each per-entry prefix check finds the prefix it looks for
		crossed := r.Chance(0.45)
		if r.Chance(0.5) {
			fresh := g.env.Dids[other]
			if x == fresh {
				x = did
			}
			doc := g.didDoc(fresh, []int{other}, 0)
			doc.Id = x
			pmid := fmt.Sprintf("%s#key%d", fresh, other)
			if crossed {
				doc.Auth = []RelSpec{{VM: &VMSpec{Id: x + "#auth1", Type: "EcdsaSecp256k1VerificationKey2019", Controller: x, Key: other}}}
				pmid = x + "#auth1"
			}
			g.tx(MsgSpec{T: "did.Create", F: map[string]string{"did": fresh, "from": from}, Doc: doc, Proof: &ProofSpec{Key: other, MethodID: pmid, Seq: "0"}})
		} else {
			doc := g.didDoc(did, []int{k}, 0)
			doc.Id = x
			if crossed {
				doc.Auth = []RelSpec{{VM: &VMSpec{Id: x + "#auth1", Type: "EcdsaSecp256k1VerificationKey2019", Controller: x, Key: k}}}
			}
			upd(&ProofSpec{Key: k, MethodID: mid, Seq: "cur"}, doc)
		}
	case 17: // rotation that leaves the old key in verificationMethod under the SAME id as the new dedicated authentication method
		if r.Chance(0.4) {
			// ... or simply first in verificationMethod (assertion only) while authentication points at the new key; the old key
			// then signs messages that leave the method id EMPTY ("the only key", a wallet might think)
			nk := (k + 3) % NumDidKeys
			oldID, newID := fmt.Sprintf("%s#key%d", did, k), fmt.Sprintf("%s#key%d", did, nk)
			doc := &DocSpec{Id: did, VMs: []VMSpec{{Id: oldID, Type: "EcdsaSecp256k1VerificationKey2019", Controller: did, Key: k}, {Id: newID, Type: "EcdsaSecp256k1VerificationKey2019", Controller: did, Key: nk}},
				Assertion: []RelSpec{{Ref: oldID}}, Auth: []RelSpec{{Ref: newID}}}
			id := g.tx(MsgSpec{T: "did.Update", F: map[string]string{"did": did, "from": from}, Doc: doc, Proof: &ProofSpec{Key: k, MethodID: mid, Seq: "cur"}})
			g.didTx = append(g.didTx, didRef{id, did})
			if r.Chance(0.5) {
				upd(&ProofSpec{Key: k, MethodID: "", Seq: "cur"}, g.didDoc(did, []int{k}, 0))
			} else {
				g.tx(MsgSpec{T: "did.Deactivate", F: map[string]string{"did": did, "from": from}, Proof: &ProofSpec{Key: k, MethodID: "", Seq: "cur"}})
			}
			return
		}
		nk := (k + 2 + r.Intn(5)) % NumDidKeys
		if nk == k {
			nk = (k + 1) % NumDidKeys
		}
		doc := &DocSpec{Id: did,
			VMs:       []VMSpec{{Id: mid, Type: "EcdsaSecp256k1VerificationKey2019", Controller: did, Key: k}},
			Assertion: []RelSpec{{Ref: mid}},
			Auth:      []RelSpec{{VM: &VMSpec{Id: mid, Type: "EcdsaSecp256k1VerificationKey2019", Controller: did, Key: nk}}}}
		id := g.tx(MsgSpec{T: "did.Update", F: map[string]string{"did": did, "from": from}, Doc: doc, Proof: &ProofSpec{Key: k, MethodID: mid, Seq: "cur"}})
		g.didTx = append(g.didTx, didRef{id, did})
		// the rotated-out key (now only an assertion key) tries to act; then the real authentication key acts
		g.tx(MsgSpec{T: "did.Deactivate", F: map[string]string{"did": did, "from": from}, Proof: &ProofSpec{Key: k, MethodID: mid, Seq: "cur"}})
		g.tx(MsgSpec{T: "did.Update", F: map[string]string{"did": did, "from": from}, Doc: doc, Proof: &ProofSpec{Key: nk, MethodID: mid, Seq: "cur"}})
	case 15: // C11 near-miss: the did field is a case variant of the document id (base58 is case-sensitive: a different DID)
		odid := g.env.Dids[other]
		doc := g.didDoc(odid, []int{other}, 0)
		field := caseVariant(odid, r)
		if r.Chance(0.5) {
			// ... or a DID URL of it (the identifier followed by a fragment, a path or a query): not an identifier at all
			field = odid + []string{"#key1", "#", "/path", "?service=x", "#key" + fmt.Sprint(other), ";v=1"}[r.Intn(6)]
		}
		g.tx(MsgSpec{T: "did.Create", F: map[string]string{"did": field, "from": from}, Doc: doc, Proof: &ProofSpec{Key: other, MethodID: fmt.Sprintf("%s#key%d", odid, other), Seq: "0"}})
		if r.Chance(0.4) {
			g.tx(MsgSpec{T: "did.Update", F: map[string]string{"did": field, "from": from}, Doc: doc, Proof: &ProofSpec{Key: other, MethodID: fmt.Sprintf("%s#key%d", odid, other), Seq: "0", SeqOfDID: odid}})
		}
	case 16: // C11 near-miss: update of an existing DID with a document about its case variant
		doc := g.didDoc(caseVariant(did, r), []int{k}, 0)
		upd(&ProofSpec{Key: k, MethodID: mid, Seq: "cur"}, doc)
	case 14: // identifiers that are valid for ANOTHER registered DID: a method id '<otherDid>#...' inside this DID's document
		if len(act) > 1 {
			od := act[(r.Intn(len(act)-1)+1+indexOf(act, did))%len(act)]
			_, omids := g.authKeys(od)
			if len(omids) > 0 {
				doc := g.didDoc(did, []int{k}, 0)
				doc.VMs = append(doc.VMs, VMSpec{Id: omids[0], Type: "EcdsaSecp256k1VerificationKey2019", Controller: did, Key: other})
				if r.Chance(0.5) {
					doc.Assertion = append(doc.Assertion, RelSpec{Ref: omids[0]})
				}
				upd(&ProofSpec{Key: k, MethodID: mid, Seq: "cur"}, doc)
				return
			}
		}
		g.famDid()
	case 0: // a key that is not in the document at all
		upd(&ProofSpec{Key: other, MethodID: mid, Seq: "cur"}, g.didDoc(did, []int{other}, 0))
	case 1: // wrong sequence
		upd(&ProofSpec{Key: k, MethodID: mid, Seq: []string{"cur+1", "cur-1", "0", "99"}[r.Intn(4)]}, g.didDoc(did, []int{k}, 0))
	case 2: // signature over different content
		upd(&ProofSpec{Key: k, MethodID: mid, Seq: "cur", Content: "other"}, g.didDoc(did, []int{k}, 0))
	case 3: // key listed only under assertionMethod / only as verification method
		e := g.plan.Did[did]
		for _, vm := range e.Doc.VerificationMethods {
			if strings.Contains(vm.Id, "#assert") {
				var ki int
				fmt.Sscanf(vm.Id[strings.Index(vm.Id, "#")+1:], "assert%d", &ki)
				upd(&ProofSpec{Key: ki, MethodID: vm.Id, Seq: "cur"}, g.didDoc(did, []int{ki}, 0))
				return
			}
		}
		upd(&ProofSpec{Key: other, MethodID: fmt.Sprintf("%s#key%d", did, other), Seq: "cur"}, g.didDoc(did, []int{other}, 0))
	case 4: // non-secp256k1 key listed under authentication
		if r.Chance(0.4) {
			// ... as the ONLY authentication method: the owner moves authentication to a key type nothing here can verify and keeps
			// the old secp256k1 key for assertions. From then on nobody can prove control - certainly not the old key.
			ex := did + "#ed-only"
			doc := &DocSpec{Id: did,
				VMs:       []VMSpec{{Id: mid, Type: "EcdsaSecp256k1VerificationKey2019", Controller: did, Key: k}, {Id: ex, Type: "Ed25519VerificationKey2018", Controller: did, Key: other}},
				Assertion: []RelSpec{{Ref: mid}}, Auth: []RelSpec{{Ref: ex}}}
			id := g.tx(MsgSpec{T: "did.Update", F: map[string]string{"did": did, "from": from}, Doc: doc, Proof: &ProofSpec{Key: k, MethodID: mid, Seq: "cur"}})
			g.didTx = append(g.didTx, didRef{id, did})
			if r.Chance(0.6) {
				upd(&ProofSpec{Key: k, MethodID: mid, Seq: "cur"}, g.didDoc(did, []int{k}, 0))
			} else {
				g.tx(MsgSpec{T: "did.Deactivate", F: map[string]string{"did": did, "from": from}, Proof: &ProofSpec{Key: k, MethodID: mid, Seq: "cur"}})
			}
			return
		}
		e := g.plan.Did[did]
		for _, vm := range e.Doc.VerificationMethods {
			if strings.Contains(vm.Id, "#ed") {
				var ki int
				fmt.Sscanf(vm.Id[strings.Index(vm.Id, "#")+1:], "ed%d", &ki)
				upd(&ProofSpec{Key: ki, MethodID: vm.Id, Seq: "cur"}, g.didDoc(did, []int{ki}, 0))
				return
			}
		}
		g.famDid()
	case 5: // rotate out a key, then try the old key in the same block
		nk := (k + 1 + r.Intn(5)) % NumDidKeys
		if nk == k {
			nk = (k + 1) % NumDidKeys
		}
		id := g.tx(MsgSpec{T: "did.Update", F: map[string]string{"did": did, "from": from}, Doc: g.didDoc(did, []int{nk}, 0), Proof: &ProofSpec{Key: k, MethodID: mid, Seq: "cur"}})
		g.didTx = append(g.didTx, didRef{id, did})
		upd(&ProofSpec{Key: k, MethodID: mid, Seq: "cur"}, g.didDoc(did, []int{k}, 0))
		g.tx(MsgSpec{T: "did.Deactivate", F: map[string]string{"did": did, "from": from}, Proof: &ProofSpec{Key: k, MethodID: mid, Seq: "cur"}})
	case 6: // C11: document about another identifier under this DID (signed by the other identifier's key)
		if r.Chance(0.25) {
			// an identifier whose first character is a letter of the method prefix ("did:panacea:" = d i p a n c e), presented
			// under itself minus that character
			// (identifiers are not tied to keys: any 32-44 base58 characters will do)
			idp := g.env.Dids[other][len("did:panacea:"):]
			if len(idp) > 40 {
				idp = idp[:40]
			}
			lead := []string{"d", "a", "p", "e", "pan", "did", "acne"}[r.Intn(7)]
			x := "did:panacea:" + lead + idp
			if g.plan.Did[x] == nil {
				g.tx(MsgSpec{T: "did.Create", F: map[string]string{"did": "did:panacea:" + idp, "from": from}, Doc: g.didDoc(x, []int{other}, 0), Proof: &ProofSpec{Key: other, MethodID: fmt.Sprintf("%s#key%d", x, other), Seq: "0"}})
				return
			}
		}
		odid := g.env.Dids[other]
		doc := g.didDoc(odid, []int{other}, 0)
		if r.Chance(0.4) && len(odid) > len("did:panacea:")+33 {
			// ... where "this DID" is the other identifier cut short by a few characters (still a well-formed DID, and a
			// string prefix of the document's id and of every method id in it)
			cut := odid[:len(odid)-r.Range(1, len(odid)-len("did:panacea:")-32)]
			if r.Chance(0.5) {
				// ... or with its first characters taken away (a comparison that strips the method prefix by character set eats them)
				cut = "did:panacea:" + odid[len("did:panacea:")+r.Range(1, len(odid)-len("did:panacea:")-32):]
			}
			g.tx(MsgSpec{T: "did.Create", F: map[string]string{"did": cut, "from": from}, Doc: doc, Proof: &ProofSpec{Key: other, MethodID: fmt.Sprintf("%s#key%d", odid, other), Seq: "0"}})
			return
		}
		g.tx(MsgSpec{T: "did.Create", F: map[string]string{"did": g.env.Dids[(other+3)%NumDidKeys], "from": from}, Doc: doc, Proof: &ProofSpec{Key: other, MethodID: fmt.Sprintf("%s#key%d", odid, other), Seq: "0"}})
	case 7: // C11: update carrying a document whose id is another DID (valid proof of the stored key)
		odid := g.env.Dids[other]
		doc := g.didDoc(odid, []int{other}, 0)
		upd(&ProofSpec{Key: k, MethodID: mid, Seq: "cur"}, doc)
	case 8: // create on an existing DID (fresh key, valid self-proof)
		g.tx(MsgSpec{T: "did.Create", F: map[string]string{"did": did, "from": from}, Doc: g.didDoc(did, []int{other}, 0), Proof: &ProofSpec{Key: other, MethodID: fmt.Sprintf("%s#key%d", did, other), Seq: "0"}})
	case 9: // anything on a deactivated DID
		if len(tomb) > 0 {
			td := tomb[r.Intn(len(tomb))]
			tk := r.Intn(NumDidKeys)
			for i, d := range g.env.Dids {
				if d == td {
					tk = i
				}
			}
			switch r.Intn(3) {
			case 0:
				g.tx(MsgSpec{T: "did.Create", F: map[string]string{"did": td, "from": from}, Doc: g.didDoc(td, []int{tk}, 0), Proof: &ProofSpec{Key: tk, MethodID: fmt.Sprintf("%s#key%d", td, tk), Seq: "0"}})
			case 1:
				g.tx(MsgSpec{T: "did.Update", F: map[string]string{"did": td, "from": from}, Doc: g.didDoc(td, []int{tk}, 0), Proof: &ProofSpec{Key: tk, MethodID: fmt.Sprintf("%s#key%d", td, tk), Seq: "cur"}})
			case 2:
				g.tx(MsgSpec{T: "did.Deactivate", F: map[string]string{"did": td, "from": from}, Proof: &ProofSpec{Key: tk, MethodID: fmt.Sprintf("%s#key%d", td, tk), Seq: "cur"}})
			}
		} else {
			id := g.tx(MsgSpec{T: "did.Deactivate", F: map[string]string{"did": did, "from": from}, Proof: &ProofSpec{Key: k, MethodID: mid, Seq: "cur"}})
			g.didTx = append(g.didTx, didRef{id, did})
		}
	case 10: // update carrying an empty document / no document
		if r.Chance(0.5) {
			g.tx(MsgSpec{T: "did.Update", F: map[string]string{"did": did, "from": from}, Doc: &DocSpec{Id: "", NoContext: true}, Proof: &ProofSpec{Key: k, MethodID: mid, Seq: "cur"}})
		} else {
			g.tx(MsgSpec{T: "did.Update", F: map[string]string{"did": did, "from": from}, NilDoc: true, Proof: &ProofSpec{Key: k, MethodID: mid, Seq: "cur"}})
		}
	case 11: // deactivation proof made for another DID / wrong content / over the stored document (for a DID that was never
		// updated that is the signature published with its creation, if the sequence were the same)
		if r.Chance(0.5) {
			g.tx(MsgSpec{T: "did.Deactivate", F: map[string]string{"did": did, "from": g.addr(r.Intn(NumAccounts))}, Proof: &ProofSpec{Key: k, MethodID: mid, Seq: []string{"cur", "cur-1", "0"}[r.Intn(3)], ContentStored: true}})
			return
		}
		g.tx(MsgSpec{T: "did.Deactivate", F: map[string]string{"did": did, "from": from}, Proof: &ProofSpec{Key: k, MethodID: mid, Seq: "cur", Content: g.env.Dids[other]}})
	case 12: // two updates signed over the same sequence (exactly one wins)
		p1 := &ProofSpec{Key: k, MethodID: mid, Seq: "cur"}
		a := g.emit(&TxSpec{Msgs: []MsgSpec{{T: "did.Update", F: map[string]string{"did": did, "from": g.addr(1)}, Doc: g.didDoc(did, []int{k}, 0), Proof: p1}}})
		g.didTx = append(g.didTx, didRef{a, did})
		g.emit(&TxSpec{Msgs: []MsgSpec{{T: "did.Update", F: map[string]string{"did": did, "from": g.addr(2)}, Doc: g.didDoc(did, []int{k, other}, 0), Proof: &ProofSpec{Key: k, MethodID: mid, Seq: "cur-1"}}}})
	case 13: // garbage signature bytes; the genuine signature in its other, malleable encoding (r, N-s)
		if r.Chance(0.5) {
			p := &ProofSpec{Key: k, MethodID: mid, Seq: "cur", HighS: true}
			if r.Chance(0.5) {
				g.tx(MsgSpec{T: "did.Deactivate", F: map[string]string{"did": did, "from": from}, Proof: p})
				// had it been accepted (it must not be): the DID stays deactivated whatever was stored
				g.tx(MsgSpec{T: "did.Create", F: map[string]string{"did": did, "from": from}, Doc: g.didDoc(did, []int{other}, 0), Proof: &ProofSpec{Key: other, MethodID: fmt.Sprintf("%s#key%d", did, other), Seq: "0"}})
			} else {
				upd(p, g.didDoc(did, []int{k}, 0))
			}
			return
		}
		upd(&ProofSpec{Key: k, MethodID: mid, RawSig: hex.EncodeToString(r.Bytes([]int{1, 63, 64, 65, 200}[r.Intn(5)]))}, g.didDoc(did, []int{k}, 0))
	}
}

// replay adversary: re-submit accepted DID messages (fresh outer tx, any relayer), and exact bytes of old txs
func (g *Gen) famReplay() {
	r := g.rng
	if len(g.didTx) > 0 && r.Chance(0.8) {
		ref := g.didTx[r.Intn(len(g.didTx))]
		orig := g.specs[ref.Tx]
		if orig != nil && len(orig.Msgs) > 0 && r.Chance(0.35) {
			// C11: the observed message re-targeted at another DID field (a fresh identifier, an existing one, a case variant)
			var target string
			switch r.Intn(3) {
			case 0:
				target = g.env.Dids[r.Intn(NumDidKeys)]
			case 1:
				if act := g.planDids(true); len(act) > 0 {
					target = act[r.Intn(len(act))]
				} else {
					target = g.env.Dids[r.Intn(NumDidKeys)]
				}
			default:
				target = caseVariant(ref.Did, r)
			}
			if d := orig.Msgs[0].Doc; d != nil && len(d.Controller) > 0 && r.Chance(0.6) {
				target = d.Controller[r.Intn(len(d.Controller))] // a DID the observed document names as its controller
			}
			f := map[string]string{"did": target, "from": g.addr(r.Intn(NumAccounts))}
			if r.Chance(0.2) {
				f["as_update"] = "1"
			}
			g.emit(&TxSpec{Msgs: []MsgSpec{{T: "retarget", OfTx: ref.Tx, OfMsg: 0, F: f}}, Note: "observed DID message replayed under another DID"})
			return
		}
		if orig != nil && len(orig.Msgs) > 0 {
			// same inner message, same from_address (the original relayer signs again)
			g.emit(&TxSpec{Msgs: []MsgSpec{{T: "reuse", OfTx: ref.Tx, OfMsg: 0}}, Note: "replay of accepted DID message"})
			return
		}
	}
	if g.next > 0 {
		g.emit(&TxSpec{ReplayOf: r.Range(1, g.next), Note: "replay of exact bytes"})
	}
}

// --- PNFT

func (g *Gen) planDenoms() []string {
	var out []string
	for d := range g.plan.Denoms {
		out = append(out, d)
	}
	sort.Strings(out)
	return out
}

func (g *Gen) planTokens() (out [][2]string) {
	ds := make([]string, 0)
	for d := range g.plan.Tokens {
		ds = append(ds, d)
	}
	sort.Strings(ds)
	for _, d := range ds {
		ids := make([]string, 0)
		for id := range g.plan.Tokens[d] {
			ids = append(ids, id)
		}
		sort.Strings(ids)
		for _, id := range ids {
			out = append(out, [2]string{d, id})
		}
	}
	return
}

func (g *Gen) idFrom(pool []string, adversarial bool) string {
	if adversarial {
		return pool[g.rng.Intn(len(pool))]
	}
	for i := 0; i < 8; i++ {
		s := pool[g.rng.Intn(len(pool))]
		if !hasNUL(s) {
			return s
		}
	}
	return pool[0]
}

func (g *Gen) famPnft() {
	r := g.rng
	dens := g.planDenoms()
	toks := g.planTokens()
	adv := g.prop == "C12" && r.Chance(0.3)
	switch {
	case len(dens) == 0 || r.Chance(0.15):
		creator := g.addr(r.Intn(5))
		if r.Chance(0.07) {
			creator = strings.ToUpper(creator) // bech32's other legal spelling: signs as the same account, is stored as written
		}
		data := "{}"
		if r.Chance(0.25) {
			data = `{"issuer":"` + g.addr(r.Intn(6)) + `"}` // free-form data may mention anybody
		}
		nm, sy := "name", "SYM"
		if r.Chance(0.08) {
			// names and symbols need only be non-empty: blanks, a tab, a no-break space are names too
			nm, sy = []string{" ", "\t", "  ", "\u00a0", "name"}[r.Intn(5)], []string{" ", "\t", "SYM", "\n"}[r.Intn(4)]
		}
		g.tx(M("pnft.CreateDenom", "id", g.idFrom(denomPool, adv), "name", nm, "symbol", sy, "desc", "d", "uri", "u", "uri_hash", "h", "data", data, "creator", creator))
	default:
		d := dens[r.Intn(len(dens))]
		owner := g.plan.Denoms[d].Owner
		switch r.Pick([]int{8, 2, 1, 2, 5, 3}) {
		case 0:
			tn := "tok"
			if r.Chance(0.08) {
				tn = []string{" ", "\t", "  ", "\u00a0"}[r.Intn(4)]
			}
			g.tx(M("pnft.Mint", "denom", d, "id", g.idFrom(tokenPool, adv), "name", tn, "desc", "dd", "uri", "uri", "uri_hash", "hh", "data", "data", "creator", owner))
		case 1:
			g.tx(M("pnft.UpdateDenom", "id", d, "name", []string{"", "n2"}[r.Intn(2)], "symbol", []string{"", "S2"}[r.Intn(2)], "desc", "newdesc", "updater", owner))
		case 2:
			g.tx(M("pnft.DeleteDenom", "id", d, "remover", owner))
		case 3:
			g.tx(M("pnft.TransferDenom", "id", d, "sender", owner, "receiver", g.addr(r.Intn(6))))
		case 4:
			if len(toks) > 0 {
				t := toks[r.Intn(len(toks))]
				to := g.addr(r.Intn(6))
				if r.Chance(0.06) {
					to = []string{BurnAddress, g.moduleAddr()}[r.Intn(2)] // parked at an address nobody holds a key for
				}
				g.tx(M("pnft.Transfer", "denom", t[0], "id", t[1], "sender", g.plan.Tokens[t[0]][t[1]].Owner, "receiver", to))
			}
		case 5:
			if len(toks) > 0 {
				t := toks[r.Intn(len(toks))]
				g.tx(M("pnft.Burn", "denom", t[0], "id", t[1], "burner", g.plan.Tokens[t[0]][t[1]].Owner))
				if r.Chance(0.5) { // burn and re-mint
					if dn := g.plan.Denoms[t[0]]; dn != nil {
						g.tx(M("pnft.Mint", "denom", t[0], "id", t[1], "name", "reborn", "creator", dn.Owner))
					}
				}
			}
		}
	}
}

func (g *Gen) famPnftAdv() {
	r := g.rng
	dens := g.planDenoms()
	toks := g.planTokens()
	if len(dens) == 0 {
		g.famPnft()
		return
	}
	d := dens[r.Intn(len(dens))]
	owner := g.plan.Denoms[d].Owner
	stranger := g.addr(6 + r.Intn(3))
	switch r.Intn(16) {
	case 15: // identifiers that BEGIN with the separator byte of the x/nft keys: were they admitted, the by-denom listings would mix
		a := g.addr(r.Intn(5))
		ids := [][2]string{{"\x00", "\x00\x00"}, {"\x00", "\x00lab"}, {"\x00\x00", "\x00"}}[r.Intn(3)]
		for _, id := range ids {
			g.tx(M("pnft.CreateDenom", "id", id, "name", "n", "symbol", "s", "creator", a))
			g.tx(M("pnft.Mint", "denom", id, "id", []string{"a", "lab", "\x00a"}[r.Intn(3)], "name", "n", "creator", a))
		}
	case 14: // the only token of a fresh denom is named after ANOTHER denom and burnt: nothing of that other denom may move
		solo := fmt.Sprintf("solo%d", g.next)
		a := g.addr(r.Intn(5))
		g.tx(M("pnft.CreateDenom", "id", solo, "name", "solo", "symbol", "S", "creator", a))
		g.tx(M("pnft.Mint", "denom", solo, "id", d, "name", "n", "creator", a))
		g.tx(M("pnft.Burn", "denom", solo, "id", d, "burner", a))
		g.tx(M("pnft.DeleteDenom", "id", d, "remover", owner)) // refused while d holds tokens
		g.tx(M("pnft.Mint", "denom", d, "id", fmt.Sprintf("after-solo%d", g.next), "name", "n", "creator", owner))
	case 13: // a denom id that changes hands by deletion and re-creation: whatever the first owner could do ended with the deletion
		id := fmt.Sprintf("reborn%d", g.next)
		if r.Chance(0.4) {
			// ids of 63, 64, 65 and 100 bytes (nothing limits the length of a denom id), some of them extensions of one another
			id = strings.Repeat("h", []int{63, 64, 65, 100}[r.Intn(4)])
			if r.Chance(0.5) {
				// a 64-byte id that holds a token, and its extension which is created, deleted and created again next to it
				g.tx(M("pnft.CreateDenom", "id", strings.Repeat("h", 64), "name", "base", "symbol", "B", "creator", g.addr(r.Intn(5))))
				g.tx(M("pnft.Mint", "denom", strings.Repeat("h", 64), "id", "kept", "name", "n", "creator", g.plan.ownerOf(strings.Repeat("h", 64))))
				id = strings.Repeat("h", 64) + "-ext"
			}
		}
		a, b := g.addr(r.Intn(5)), g.addr(5+r.Intn(4))
		g.tx(M("pnft.CreateDenom", "id", id, "name", "first", "symbol", "F", "creator", a))
		if r.Chance(0.4) {
			g.tx(M("pnft.Mint", "denom", id, "id", "t", "name", "n", "creator", a))
			g.tx(M("pnft.Burn", "denom", id, "id", "t", "burner", a))
		}
		g.tx(M("pnft.DeleteDenom", "id", id, "remover", a))
		g.tx(M("pnft.CreateDenom", "id", id, "name", "second", "symbol", "S", "creator", b))
		g.tx(M("pnft.Mint", "denom", id, "id", "by-first", "name", "n", "creator", a))
		g.tx(M("pnft.UpdateDenom", "id", id, "name", "mine-again", "updater", a))
		g.tx(M("pnft.Mint", "denom", id, "id", "by-second", "name", "n", "creator", b))
		g.tx(M("pnft.DeleteDenom", "id", id, "remover", a))
	case 0: // mint by a non-owner (names itself)
		g.tx(M("pnft.Mint", "denom", d, "id", g.idFrom(tokenPool, false), "name", "x", "creator", stranger))
	case 1: // hand over, then old and new owner try to mint
		nw := g.addr(r.Intn(6))
		g.tx(M("pnft.TransferDenom", "id", d, "sender", owner, "receiver", nw))
		g.tx(M("pnft.Mint", "denom", d, "id", "after-old", "name", "x", "creator", owner))
		g.tx(M("pnft.Mint", "denom", d, "id", "after-new", "name", "x", "creator", nw))
	case 2: // stranger updates / deletes / hands over a denom
		if r.Chance(0.5) {
			// an update by a non-owner, of any subset of the fields (each field group may have a path of its own)
			m := M("pnft.UpdateDenom", "id", d, "updater", stranger)
			for _, f := range [][2]string{{"name", "hijack"}, {"symbol", "HJ"}, {"desc", "taken"}, {"uri", "https://evil.example"}, {"uri_hash", "00"}, {"data", "{\"x\":1}"}} {
				if r.Chance(0.35) {
					m.F[f[0]] = f[1]
				}
			}
			g.tx(m)
		} else {
			g.tx(M("pnft.DeleteDenom", "id", d, "remover", stranger))
		}
		g.tx(M("pnft.TransferDenom", "id", d, "sender", stranger, "receiver", stranger))
	case 3: // signer differs from the actor named in the message
		if acc := g.env.AccByAddr(mustAddr(stranger)); acc != nil {
			g.emit(&TxSpec{Msgs: []MsgSpec{M("pnft.TransferDenom", "id", d, "sender", owner, "receiver", stranger)}, Signers: []int{acc.Idx}})
		}
	case 4: // creator who no longer owns a token, and strangers, try to move/burn it
		if len(toks) > 0 {
			t := toks[r.Intn(len(toks))]
			tk := g.plan.Tokens[t[0]][t[1]]
			who := tk.Creator
			if sameAddr(who, tk.Owner) {
				who = stranger
			}
			// a non-owner moves the token: to itself, to a special address (the burn address, a module account) - a special
			// receiver may have a path of its own
			g.tx(M("pnft.Transfer", "denom", t[0], "id", t[1], "sender", who, "receiver", []string{who, who, BurnAddress, g.moduleAddr(), tk.Owner}[r.Intn(5)]))
			g.tx(M("pnft.Burn", "denom", t[0], "id", t[1], "burner", who))
		}
	case 5: // transfer chain then the former owner acts
		if len(toks) > 0 {
			t := toks[r.Intn(len(toks))]
			tk := g.plan.Tokens[t[0]][t[1]]
			a, b := tk.Owner, g.addr(r.Intn(6))
			g.tx(M("pnft.Transfer", "denom", t[0], "id", t[1], "sender", a, "receiver", b))
			g.tx(M("pnft.Transfer", "denom", t[0], "id", t[1], "sender", a, "receiver", a))
			g.tx(M("pnft.Burn", "denom", t[0], "id", t[1], "burner", a))
		}
	case 6: // mint an existing token id again (other fields) — immutability/uniqueness
		if len(toks) > 0 {
			t := toks[r.Intn(len(toks))]
			if dn := g.plan.Denoms[t[0]]; dn != nil {
				g.tx(M("pnft.Mint", "denom", t[0], "id", t[1], "name", "overwrite", "uri", "evil", "creator", dn.Owner))
			}
		}
	case 7: // create an existing denom again (by anybody)
		g.tx(M("pnft.CreateDenom", "id", d, "name", "again", "symbol", "AG", "creator", []string{owner, stranger}[r.Intn(2)]))
	case 8: // delete a denom that still holds tokens, then re-create it and look at the tokens
		for _, t := range toks {
			if t[0] == d {
				g.tx(M("pnft.DeleteDenom", "id", d, "remover", owner))
				g.tx(M("pnft.CreateDenom", "id", d, "name", "recreated", "symbol", "RC", "creator", stranger))
				break
			}
		}
	case 9: // adversarial identifiers: separators, prefixes of one another
		dn := g.idFrom(denomPool, true)
		g.tx(M("pnft.CreateDenom", "id", dn, "name", "n", "symbol", "s", "creator", owner))
		g.tx(M("pnft.Mint", "denom", dn, "id", g.idFrom(tokenPool, true), "name", "n", "creator", owner))
	case 12: // an EMPTY denom whose id is a prefix of another denom's id is deleted: the longer one and its tokens stay
		p := []string{"art", "pfx", "d", "dn"}[r.Intn(4)]
		long := p + []string{"2", "\x00x", "/x", p}[r.Intn(4)]
		if hasNUL(long) {
			long = p + "0"
		}
		g.tx(M("pnft.CreateDenom", "id", p, "name", "n", "symbol", "s", "creator", owner))
		g.tx(M("pnft.CreateDenom", "id", long, "name", "n", "symbol", "s", "creator", owner))
		g.tx(M("pnft.Mint", "denom", long, "id", "t1", "name", "n", "creator", owner))
		if r.Chance(0.5) { // the short one was used once and emptied again
			g.tx(M("pnft.Mint", "denom", p, "id", "t1", "name", "n", "creator", owner))
			g.tx(M("pnft.Burn", "denom", p, "id", "t1", "burner", owner))
		}
		g.tx(M("pnft.DeleteDenom", "id", p, "remover", owner))
		g.tx(M("pnft.Transfer", "denom", long, "id", "t1", "sender", owner, "receiver", stranger))
	case 11: // two tokens whose (denom id, token id) pairs join to the same text under a separator
		sep := []string{"/", "/", "/", "/", ":", "|", ".", "-", "_", " ", "#", ","}[r.Intn(12)]
		a, b, c := []string{"jn", "hospital", "d"}[r.Intn(3)], []string{"ward7", "w", "0"}[r.Intn(3)], []string{"bed12", "b", "1"}[r.Intn(3)]
		g.tx(M("pnft.CreateDenom", "id", a, "name", "n", "symbol", "s", "creator", owner))
		g.tx(M("pnft.CreateDenom", "id", a+sep+b, "name", "n", "symbol", "s", "creator", owner))
		g.tx(M("pnft.Mint", "denom", a, "id", b+sep+c, "name", "n", "creator", owner))
		g.tx(M("pnft.Mint", "denom", a+sep+b, "id", c, "name", "n", "creator", owner))
	case 10: // operations on things that do not exist
		g.tx(M("pnft.Mint", "denom", "no-such-denom", "id", "x", "name", "n", "creator", stranger))
		g.tx(M("pnft.Burn", "denom", d, "id", "no-such-token", "burner", owner))
	}
}

// --- bank / burn / vesting (SDK messages; not judged for acceptance)

func (g *Gen) someCoins() []CoinSpec {
	r := g.rng
	if g.whale && r.Chance(0.2) { // extreme integers: beyond int64, beyond uint64, near 2^128
		return []CoinSpec{{Denom: WhaleDenom, Amount: []string{"9223372036854775807", "9223372036854775808", "18446744073709551616", "340282366920938463463374607431768211456", "1"}[r.Intn(5)]}}
	}
	den := FeeDenom
	if r.Chance(0.3) {
		den = "uatom"
	}
	amt := []string{"1", "77", "1000000", "999999999999", "0"}[r.Pick([]int{3, 3, 3, 1, 1})]
	return []CoinSpec{{Denom: den, Amount: amt}}
}

// moduleAccountNames: the accounts the application owns (app.go, maccPerms). Ordinary transfers to them are
// refused (all but gov); what happens if one ever holds a plain account or coins is part of C07/C17.
// gov is left out: it is the one module account that may receive funds, and x/gov's InitGenesis (SDK v0.47) then
// refuses every later export ("expected module account was ... but we got ...") - an SDK behaviour reached by a
// plain bank transfer, outside the histories C08 quantifies over (see DESIGN.md 11.3).
var moduleAccountNames = []string{"burn", "burn", "fee_collector", "distribution", "mint", "bonded_tokens_pool", "not_bonded_tokens_pool", "transfer", "nft"}

func (g *Gen) moduleAddr() string {
	return sdk.AccAddress(authtypes.NewModuleAddress(moduleAccountNames[g.rng.Intn(len(moduleAccountNames))])).String()
}

// famCrisis: anybody may pay the constant fee to have one registered invariant checked inside a transaction. Which
// invariants a node knows is decided when the process starts - the same on every node, restarted or not.
func (g *Gen) famCrisis() {
	r := g.rng
	routes := [][2]string{{"bank", "total-supply"}, {"bank", "nonnegative-outstanding"}, {"staking", "module-accounts"}, {"staking", "nonnegative-power"},
		{"distribution", "nonnegative-outstanding"}, {"distribution", "module-account"}, {"gov", "module-account"}, {"aol", "no-such-route"}, {"bank", ""}}
	rt := routes[r.Intn(len(routes))]
	g.emit(&TxSpec{Gas: 5_000_000, Msgs: []MsgSpec{M("crisis.VerifyInvariant", "sender", g.addr(r.Intn(NumAccounts)), "module", rt[0], "route", rt[1])}})
}

// famGroup: custom messages that a group policy account proposes and x/group executes at once. Only messages that must
// FAIL are used (the policy account owns nothing and holds no key): the transaction succeeds, and the error text of the
// failed execution becomes part of an event - of the transaction result every replica must agree on.
func (g *Gen) famGroup() {
	r := g.rng
	if g.nPolicies == 0 || r.Chance(0.25) {
		admin := g.addr(r.Intn(NumAccounts))
		g.emit(&TxSpec{Gas: 3_000_000, Msgs: []MsgSpec{M("group.CreateWithPolicy", "admin", admin)}})
		g.nPolicies++
		g.policyAdmins = append(g.policyAdmins, admin)
		if r.Chance(0.5) {
			return
		}
	}
	seq := 1 + r.Intn(g.nPolicies)
	var inner []MsgSpec
	for i := r.Range(1, 2); i > 0; i-- {
		switch r.Intn(8) {
		case 0, 1, 2: // a DID message naming a method that is declared but is no authentication method / with a foreign proof
			if act := g.planDids(true); len(act) > 0 {
				did := act[r.Intn(len(act))]
				mid := did + "#nope"
				if e := g.plan.Did[did]; e != nil && e.Doc != nil {
					var ids []string
					for _, vm := range e.Doc.VerificationMethods {
						if vm != nil {
							ids = append(ids, vm.Id)
						}
					}
					if len(ids) > 0 {
						mid = ids[r.Intn(len(ids))]
					}
				}
				p := &ProofSpec{Key: r.Intn(NumDidKeys), MethodID: mid, Seq: "cur", RawSig: hex.EncodeToString(Keyed(uint64(seq), "group-sig", uint64(g.next)).Bytes(64))}
				if r.Chance(0.5) {
					inner = append(inner, MsgSpec{T: "did.Update", F: map[string]string{"did": did, "from": "@policy"}, Doc: g.didDoc(did, []int{r.Intn(NumDidKeys)}, 0), Proof: p})
				} else {
					inner = append(inner, MsgSpec{T: "did.Deactivate", F: map[string]string{"did": did, "from": "@policy"}, Proof: p})
				}
			}
		case 3:
			inner = append(inner, M("aol.AddWriter", "topic", "no-such-topic-of-the-policy", "owner", "@policy", "writer", g.addr(r.Intn(NumAccounts))))
		case 4:
			if ts := g.planTopics(); len(ts) > 0 {
				t := ts[r.Intn(len(ts))]
				inner = append(inner, g.recordSpec(t[0], t[1], "@policy", ""))
			}
		case 5:
			if ds := g.planDenoms(); len(ds) > 0 {
				inner = append(inner, M("pnft.Mint", "denom", ds[r.Intn(len(ds))], "id", "by-policy", "name", "n", "creator", "@policy"))
			}
		case 6:
			if ds := g.planDenoms(); len(ds) > 0 {
				inner = append(inner, M("pnft.DeleteDenom", "id", ds[r.Intn(len(ds))], "remover", "@policy"))
			}
		case 7:
			inner = append(inner, M("pnft.Transfer", "denom", "no-such-denom", "id", "x", "sender", "@policy", "receiver", g.addr(r.Intn(NumAccounts))))
		}
	}
	if len(inner) == 0 {
		return
	}
	g.emit(&TxSpec{Gas: 5_000_000, Msgs: []MsgSpec{{T: "group.Propose", F: map[string]string{"proposer": g.policyAdmins[seq-1], "policy_seq": fmt.Sprint(seq)}, Inner: inner}}})
}

// famStaking: small delegations to the chain's validator, undelegations, reward withdrawals. They fire the staking hooks
// (distribution and slashing bookkeeping) - wiring that is set up when a process starts, not per chain. Account 0 keeps
// the overwhelming share of the voting power (its genesis delegation is 1 000 000, these are at most 1 000 each).
func (g *Gen) famStaking() {
	r := g.rng
	d := g.addr(1 + r.Intn(NumAccounts-1))
	switch r.Pick([]int{5, 2, 2}) {
	case 0:
		g.emit(&TxSpec{Gas: 2_000_000, Msgs: []MsgSpec{M("staking.Delegate", "delegator", d, "amount", fmt.Sprint(r.Range(1, 1000)))}})
	case 1:
		g.emit(&TxSpec{Gas: 2_000_000, Msgs: []MsgSpec{M("staking.Undelegate", "delegator", d, "amount", fmt.Sprint(r.Range(1, 300)))}})
	case 2:
		g.emit(&TxSpec{Gas: 2_000_000, Msgs: []MsgSpec{M("distr.WithdrawReward", "delegator", d)}})
	}
}

func (g *Gen) famBank() {
	r := g.rng
	if r.Chance(0.2) {
		g.tx(MsgSpec{T: "bank.Send", F: map[string]string{"from": g.addr(r.Intn(NumAccounts)), "to": g.moduleAddr()}, Coins: g.someCoins()})
		return
	}
	g.tx(MsgSpec{T: "bank.Send", F: map[string]string{"from": g.addr(r.Intn(NumAccounts)), "to": g.addr(r.Intn(NumAccounts))}, Coins: g.someCoins()})
}

// famGov: a governance proposal that changes the consensus parameters, and the deciding vote. The new limits take
// effect when the voting period (10 s of block time) ends, inside some later EndBlock: from then on transactions
// whose gas limit exceeds block.max_gas are refused by every node - running, restarted or catching up - alike.
func (g *Gen) famGov() {
	r := g.rng
	if r.Chance(0.25) {
		// a legacy parameter-change proposal (x/params subspaces): how a node answers must not depend on its history
		combos := [][3]string{{"staking", "MaxValidators", `120`}, {"staking", "MaxEntries", `9`}, {"bank", "DefaultSendEnabled", `true`}, {"mint", "MintDenom", `"umed"`},
			{"slashing", "SignedBlocksWindow", `"200"`}, {"staking", "MaxValidators", `"x"`}, {"no-such-subspace", "Nope", `true`}, {"bank", "Nope", `1`}}
		c := combos[r.Intn(len(combos))]
		g.emit(&TxSpec{Gas: 2_000_000, Msgs: []MsgSpec{{T: "gov.SubmitLegacyParam", F: map[string]string{"proposer": g.addr(r.Intn(NumAccounts)), "subspace": c[0], "key": c[1], "value": c[2]},
			Coins: []CoinSpec{{Denom: FeeDenom, Amount: "1"}}}}})
		return
	}
	if extra := g.extraDenoms(); len(extra) > 0 && r.Chance(0.2) {
		// transfers of one of the other denominations are switched off by governance (and sometimes on again): MsgSend
		// refuses that denomination from then on; what already sits at the burn address, unlocks there later or arrives
		// through a module still has to be burnt
		g.nProposals++
		den := extra[r.Intn(len(extra))]
		en := "false"
		if r.Chance(0.2) {
			en = "true"
		}
		g.emit(&TxSpec{Gas: 2_000_000, Msgs: []MsgSpec{{T: "gov.SubmitSendEnabled", F: map[string]string{"proposer": g.addr(r.Intn(NumAccounts)), "denom": den, "enabled": en},
			Coins: []CoinSpec{{Denom: FeeDenom, Amount: "1"}}}}})
		g.emit(&TxSpec{Gas: 2_000_000, Msgs: []MsgSpec{{T: "gov.Vote", F: map[string]string{"proposal": fmt.Sprint(g.nProposals), "voter": g.addr(0), "option": "yes"}}}})
		// coins of that denomination on their way to the burn address while the vote is open
		for i := r.Range(1, 3); i > 0; i-- {
			g.tx(MsgSpec{T: "bank.Send", F: map[string]string{"from": g.addr(r.Intn(NumAccounts)), "to": BurnAddress}, Coins: []CoinSpec{{Denom: den, Amount: fmt.Sprint(r.Range(1, 500))}}})
		}
		return
	}
	if r.Chance(0.35) {
		// a proposal that spends from the community pool (fees collected so far), to an account or to the burn address:
		// coins that arrive at the burn address inside EndBlock, after every transaction of the block
		g.nProposals++
		to := BurnAddress
		if r.Chance(0.3) {
			to = g.addr(r.Intn(NumAccounts))
		}
		sub := &TxSpec{Gas: 2_000_000, Msgs: []MsgSpec{{T: "gov.SubmitSpend", F: map[string]string{"proposer": g.addr(r.Intn(NumAccounts)), "recipient": to},
			Coins: []CoinSpec{{Denom: FeeDenom, Amount: "1"}}, Coins2: []CoinSpec{{Denom: FeeDenom, Amount: []string{"1", "1000", "2500"}[r.Intn(3)]}}}}}
		vote := &TxSpec{Gas: 2_000_000, Msgs: []MsgSpec{{T: "gov.Vote", F: map[string]string{"proposal": fmt.Sprint(g.nProposals), "voter": g.addr(0), "option": "yes"}}}}
		g.emit(sub)
		g.emit(vote)
		return
	}
	maxGas := []string{"-1", "100000000", "29999999", "40000000", "1000000000000"}[r.Pick([]int{2, 3, 3, 2, 1})]
	maxBytes := []string{"22020096", "1000000", "200000"}[r.Intn(3)]
	deposit := []string{"1", "1", "5", "0"}[r.Intn(4)]
	if deposit != "0" {
		g.nProposals++ // a proposal without a deposit is refused and gets no id
	}
	g.emit(&TxSpec{Gas: 2_000_000, Msgs: []MsgSpec{{T: "gov.SubmitParams", F: map[string]string{"proposer": g.addr(r.Intn(NumAccounts)), "max_gas": maxGas, "max_bytes": maxBytes, "metadata": ""},
		Coins: []CoinSpec{{Denom: FeeDenom, Amount: deposit}}}}})
	if r.Chance(0.85) {
		opt := "yes"
		if r.Chance(0.15) {
			opt = "no"
		}
		voter := g.addr(0)
		if r.Chance(0.1) {
			voter = g.addr(r.Intn(NumAccounts))
		}
		g.emit(&TxSpec{Gas: 2_000_000, Msgs: []MsgSpec{{T: "gov.Vote", F: map[string]string{"proposal": fmt.Sprint(g.nProposals), "voter": voter, "option": opt}}}})
	}
}

func (g *Gen) extraDenoms() []string {
	var out []string
	if g.hasAtom {
		out = append(out, "uatom")
	}
	if g.whale {
		out = append(out, WhaleDenom)
	}
	return out
}

func (g *Gen) famBurn() {
	r := g.rng
	if g.sole && g.soleLeft == 0 {
		g.soleLeft = SoleSupply
	}
	if g.sole && g.soleLeft > 0 && r.Chance(0.3) {
		// the whole remaining supply of a denomination goes to the burn address (in one or two deposits): afterwards
		// its total supply is exactly zero
		amt := g.soleLeft
		if r.Chance(0.5) && amt > 1 {
			amt = r.Range(1, amt-1)
		}
		g.soleLeft -= amt
		if g.soleLeft == 0 {
			g.soleLeft = -1
		}
		g.tx(MsgSpec{T: "bank.Send", F: map[string]string{"from": g.addr(SoleHolder), "to": BurnAddress}, Coins: []CoinSpec{{Denom: SoleDenom, Amount: fmt.Sprint(amt)}}})
		return
	}
	if g.giant && !g.giantSent && r.Chance(0.3) {
		// both giants reach the burn address in one block (one transfer, or two)
		g.giantSent = true
		if r.Chance(0.5) {
			g.tx(MsgSpec{T: "bank.Send", F: map[string]string{"from": g.addr(GiantHolder), "to": BurnAddress}, Coins: []CoinSpec{{Denom: GiantDenomA, Amount: GiantAmount}, {Denom: GiantDenomB, Amount: GiantAmount}}})
		} else {
			g.tx(MsgSpec{T: "bank.Send", F: map[string]string{"from": g.addr(GiantHolder), "to": BurnAddress}, Coins: []CoinSpec{{Denom: GiantDenomA, Amount: GiantAmount}}})
			g.tx(MsgSpec{T: "bank.Send", F: map[string]string{"from": g.addr(GiantHolder), "to": BurnAddress}, Coins: []CoinSpec{{Denom: GiantDenomB, Amount: GiantAmount}}})
		}
		return
	}
	switch r.Intn(4) {
	case 3: // coins for the module account that does the burning, before (or after) coins for the burn address
		g.tx(MsgSpec{T: "bank.Send", F: map[string]string{"from": g.addr(r.Intn(NumAccounts)), "to": sdk.AccAddress(authtypes.NewModuleAddress("burn")).String()}, Coins: g.someCoins()})
		g.tx(MsgSpec{T: "bank.Send", F: map[string]string{"from": g.addr(r.Intn(NumAccounts)), "to": BurnAddress}, Coins: g.someCoins()})
	case 0, 1:
		g.tx(MsgSpec{T: "bank.Send", F: map[string]string{"from": g.addr(r.Intn(NumAccounts)), "to": BurnAddress}, Coins: g.someCoins()})
	case 2:
		g.tx(MsgSpec{T: "bank.MultiSend", F: map[string]string{"from": g.addr(r.Intn(NumAccounts)), "n": "2", "to0": BurnAddress, "to1": g.addr(r.Intn(NumAccounts))}, Coins: g.someCoins()})
	}
}

func (g *Gen) famVest() {
	r := g.rng
	to := BurnAddress
	if r.Chance(0.2) {
		to = "panacea1" + "qqqqqqqqqqqqqqqqqqqqqqqqqqqqqqqqqqqqqq" // may be malformed: harmless
		to = g.addr(r.Intn(NumAccounts))
	}
	typ := []string{"vesting.Create", "vesting.CreatePermanent", "vesting.CreatePeriodic"}[r.Intn(3)]
	g.tx(MsgSpec{T: typ, F: map[string]string{"from": g.addr(r.Intn(NumAccounts)), "to": to}, Coins: g.someCoins(),
		EndOffsetS: []int64{10, 3600, 86400 * 365}[r.Intn(3)], Delayed: r.Chance(0.5)})
}

// --- authz: the chain's standard delegation mechanism

var customURLs = map[string]string{
	"aol.CreateTopic": "/panacea.aol.v2.MsgCreateTopicRequest", "aol.AddWriter": "/panacea.aol.v2.MsgAddWriterRequest",
	"aol.DeleteWriter": "/panacea.aol.v2.MsgDeleteWriterRequest", "aol.AddRecord": "/panacea.aol.v2.MsgAddRecordRequest",
	"pnft.CreateDenom": "/panacea.pnft.v2.MsgCreateDenomRequest", "pnft.UpdateDenom": "/panacea.pnft.v2.MsgUpdateDenomRequest",
	"pnft.DeleteDenom": "/panacea.pnft.v2.MsgDeleteDenomRequest", "pnft.TransferDenom": "/panacea.pnft.v2.MsgTransferDenomRequest",
	"pnft.Mint": "/panacea.pnft.v2.MsgMintPNFTRequest", "pnft.Transfer": "/panacea.pnft.v2.MsgTransferPNFTRequest", "pnft.Burn": "/panacea.pnft.v2.MsgBurnPNFTRequest",
	"did.Create": "/panacea.did.v2.MsgCreateDIDRequest", "did.Update": "/panacea.did.v2.MsgUpdateDIDRequest", "did.Deactivate": "/panacea.did.v2.MsgDeactivateDIDRequest",
}

func (g *Gen) famAuthz() {
	r := g.rng
	topics := g.planTopics()
	dens := g.planDenoms()
	delegate := g.addr(7 + r.Intn(3))
	var inner MsgSpec
	var granter string
	switch {
	case len(topics) > 0 && (len(dens) == 0 || r.Chance(0.6)):
		t := topics[r.Intn(len(topics))]
		granter = t[0]
		switch r.Intn(3) {
		case 0:
			inner = M("aol.AddWriter", "topic", t[1], "owner", t[0], "writer", g.addr(r.Intn(6)), "moniker", "via-delegate")
		case 1:
			ws := g.planWriters(t[0], t[1])
			if len(ws) == 0 {
				return
			}
			inner = M("aol.DeleteWriter", "topic", t[1], "owner", t[0], "writer", ws[r.Intn(len(ws))])
		case 2:
			ws := g.planWriters(t[0], t[1])
			if len(ws) == 0 {
				return
			}
			granter = ws[r.Intn(len(ws))]
			inner = g.recordSpec(t[0], t[1], granter, "")
		}
	case len(dens) > 0:
		d := dens[r.Intn(len(dens))]
		granter = g.plan.Denoms[d].Owner
		switch r.Intn(2) {
		case 0:
			inner = M("pnft.Mint", "denom", d, "id", fmt.Sprintf("dlg%d", g.next), "name", "n", "creator", granter)
		case 1:
			inner = M("pnft.TransferDenom", "id", d, "sender", granter, "receiver", g.addr(r.Intn(6)))
		}
	default:
		return
	}
	if g.env.AccByAddr(mustAddr(granter)) == nil {
		return
	}
	url := customURLs[inner.T]
	mode := r.Intn(6)
	// 0: grant then exec; 1: exec without grant; 2: grant, revoke, exec; 3: grant with expiry, jump happens or not, exec;
	// 4: grant for another message type, exec; 5: grant, exec by another grantee
	exec := func(grantee string) {
		g.tx(MsgSpec{T: "authz.Exec", F: map[string]string{"grantee": grantee}, Inner: []MsgSpec{inner}})
	}
	switch mode {
	case 0:
		g.tx(MsgSpec{T: "authz.Grant", F: map[string]string{"granter": granter, "grantee": delegate, "url": url}})
		exec(delegate)
	case 1:
		exec(delegate)
	case 2:
		g.tx(MsgSpec{T: "authz.Grant", F: map[string]string{"granter": granter, "grantee": delegate, "url": url}})
		g.tx(MsgSpec{T: "authz.Revoke", F: map[string]string{"granter": granter, "grantee": delegate, "url": url}})
		exec(delegate)
	case 3:
		g.tx(MsgSpec{T: "authz.Grant", F: map[string]string{"granter": granter, "grantee": delegate, "url": url}, ExpOffsetMs: []int64{2500, 7500, 3600_500}[r.Intn(3)]})
		g.emit(&TxSpec{Msgs: []MsgSpec{{T: "authz.Exec", F: map[string]string{"grantee": delegate}, Inner: []MsgSpec{inner}}}, Hold: r.Range(0, 2)})
	case 4:
		g.tx(MsgSpec{T: "authz.Grant", F: map[string]string{"granter": granter, "grantee": delegate, "url": customURLs["aol.CreateTopic"]}})
		exec(delegate)
	case 5:
		g.tx(MsgSpec{T: "authz.Grant", F: map[string]string{"granter": granter, "grantee": delegate, "url": url}})
		exec(g.addr(6))
	}
}

// --- multi-message transactions (C15 atomicity, fee arrangements)

func (g *Gen) famMulti() {
	r := g.rng
	o := r.Intn(4)
	owner := g.addr(o)
	name := fmt.Sprintf("m%d", g.next)
	msgs := []MsgSpec{
		M("aol.CreateTopic", "topic", name, "owner", owner),
		M("aol.AddWriter", "topic", name, "owner", owner, "writer", owner, "moniker", "self"),
		g.recordSpec(owner, name, owner, ""),
		M("pnft.CreateDenom", "id", name, "name", "n", "symbol", "s", "creator", owner),
		M("pnft.Mint", "denom", name, "id", "t1", "name", "n", "creator", owner),
	}
	n := r.Range(2, len(msgs))
	msgs = msgs[:n]
	if r.Chance(0.3) {
		// a sponsored append that is NOT the first message: its named fee payer signs too, but the transaction's first
		// signer (the owner, from the first message) is the one who pays
		sponsor := g.addr(4 + r.Intn(4))
		msgs = append(msgs, g.recordSpec(owner, name, owner, sponsor))
		if r.Chance(0.4) {
			msgs = append(msgs, g.recordSpec(owner, name, owner, g.addr(4+r.Intn(4))))
		}
	}
	if r.Chance(0.5) { // make one position fail
		bad := []MsgSpec{
			M("aol.AddWriter", "topic", "no-such-topic-xyz", "owner", owner, "writer", owner),
			M("pnft.Burn", "denom", name, "id", "nope", "burner", owner),
			M("aol.CreateTopic", "topic", name, "owner", owner),
			g.recordSpec(owner, name, g.addr(9), ""),
		}[r.Intn(4)]
		pos := r.Intn(len(msgs) + 1)
		if bad.T == "aol.AddRecord" {
			// signer differs: keep it valid in form but unauthorised -> needs that signer too; use the owner-signed failing ones instead
			bad = M("aol.DeleteWriter", "topic", name, "owner", owner, "writer", g.addr(9))
		}
		msgs = append(msgs[:pos], append([]MsgSpec{bad}, msgs[pos:]...)...)
	}
	if r.Chance(0.3) && len(g.planDids(true)) == 0 {
		k := r.Intn(NumDidKeys)
		did := g.env.Dids[k]
		if g.plan.Did[did] == nil {
			msgs = append(msgs, MsgSpec{T: "did.Create", F: map[string]string{"did": did, "from": owner}, Doc: g.didDoc(did, []int{k}, 0), Proof: &ProofSpec{Key: k, MethodID: fmt.Sprintf("%s#key%d", did, k)}})
		}
	}
	g.emit(&TxSpec{Msgs: msgs})
}

// --- tampering relay (C14): signatures collected for one message list, transaction rebuilt with another

func (g *Gen) famTamper() {
	r := g.rng
	topics := g.planTopics()
	var honest, forged []MsgSpec
	mode := r.Intn(10)
	switch {
	case mode == 9:
		// messages of different types whose protobuf bytes are identical (the same values in the same field numbers):
		// Mint{denom_id,id,name,...,creator} / CreateDenom{id,name,symbol,...,creator} / UpdateDenom{id,name,symbol,...,updater}
		o := g.addr(r.Intn(4))
		a, b, c := fmt.Sprintf("wt%d", g.next), []string{"gold", "x", "tok"}[r.Intn(3)], []string{"GLD", "s", "n"}[r.Intn(3)]
		mint := M("pnft.Mint", "denom", a, "id", b, "name", c, "desc", "d", "uri", "u", "uri_hash", "h", "data", "{}", "creator", o)
		create := M("pnft.CreateDenom", "id", a, "name", b, "symbol", c, "desc", "d", "uri", "u", "uri_hash", "h", "data", "{}", "creator", o)
		update := M("pnft.UpdateDenom", "id", a, "name", b, "symbol", c, "desc", "d", "uri", "u", "uri_hash", "h", "data", "{}", "updater", o)
		three := []MsgSpec{mint, create, update}
		i := r.Intn(3)
		honest, forged = []MsgSpec{three[i]}, []MsgSpec{three[(i+1+r.Intn(2))%3]}
	case mode == 7 && len(g.planDids(true)) > 0:
		// twins under a careless text encoding of the document: one list element that contains '","' against two elements,
		// a literal backslash-u escape against the character it would decode to, a quote inside a value
		did := g.planDids(true)[r.Intn(len(g.planDids(true)))]
		keys, mids := g.authKeys(did)
		if len(keys) == 0 {
			return
		}
		from := g.addr(r.Intn(4))
		d1 := g.didDoc(did, []int{keys[0]}, 0)
		d2 := *d1
		switch r.Intn(4) {
		case 0:
			d1.Contexts = []string{w3cContext, "https://example.com/a", "https://example.com/b"}
			d2.Contexts = []string{w3cContext, `https://example.com/a","https://example.com/b`}
		case 1:
			d1.Contexts = []string{w3cContext, "https://example.com/ns/A"}
			d2.Contexts = []string{w3cContext, `https://example.com/ns/\u0041`}
		case 2:
			d1.Controller = []string{did, g.env.Dids[0]}
			d2.Controller = []string{did + `","` + g.env.Dids[0]}
		case 3:
			d1.Services = []SvcSpec{{Id: "svc1", Type: "LinkedDomains", Endpoint: "https://example.org/A"}}
			d2.Services = []SvcSpec{{Id: "svc1", Type: "LinkedDomains", Endpoint: `https://example.org/\u0041`}}
		}
		// the same proof bytes in both: what is compared is what the account signature covers
		p := &ProofSpec{Key: keys[0], MethodID: mids[0], Seq: "cur", RawSig: strings.Repeat("5a", 64)}
		honest = []MsgSpec{{T: "did.Update", F: map[string]string{"did": did, "from": from}, Doc: d1, Proof: p}}
		forged = []MsgSpec{{T: "did.Update", F: map[string]string{"did": did, "from": from}, Doc: &d2, Proof: p}}
		if r.Chance(0.5) {
			honest, forged = forged, honest
		}
	case mode == 8:
		// the same for plain text fields of the other modules
		o := g.addr(r.Intn(4))
		a, b := "n-A", `n-\u0041`
		if r.Chance(0.5) {
			a, b = `q"x`, `q\"x`
		}
		if r.Chance(0.35) {
			// free-form data that is JSON: two documents a JSON normaliser would make equal (key order, white space, a number
			// beyond 2^53, a repeated key) are two different byte strings and two different messages
			tw := [][2]string{{`{"a":1,"b":2}`, `{"b":2,"a":1}`}, {`{"a":1}`, `{"a": 1}`}, {`{"serial":9007199254740993}`, `{"serial":9007199254740992}`},
				{`{"owner":"alice","owner":"bob"}`, `{"owner":"bob"}`}, {`{"v":1.0}`, `{"v":1}`}, {`[1,2]`, `[1, 2]`}}[r.Intn(6)]
			id := fmt.Sprintf("tw%d", g.next)
			switch r.Intn(3) {
			case 0:
				honest = []MsgSpec{M("pnft.CreateDenom", "id", id, "name", "n", "symbol", "s", "data", tw[0], "creator", o)}
				forged = []MsgSpec{M("pnft.CreateDenom", "id", id, "name", "n", "symbol", "s", "data", tw[1], "creator", o)}
			case 1:
				honest = []MsgSpec{M("pnft.Mint", "denom", id, "id", "t", "name", "n", "data", tw[0], "creator", o)}
				forged = []MsgSpec{M("pnft.Mint", "denom", id, "id", "t", "name", "n", "data", tw[1], "creator", o)}
			case 2:
				honest = []MsgSpec{M("pnft.UpdateDenom", "id", id, "data", tw[0], "updater", o)}
				forged = []MsgSpec{M("pnft.UpdateDenom", "id", id, "data", tw[1], "updater", o)}
			}
		} else if r.Chance(0.5) {
			id := fmt.Sprintf("tw%d", g.next)
			honest = []MsgSpec{M("pnft.CreateDenom", "id", id, "name", a, "symbol", "s", "creator", o)}
			forged = []MsgSpec{M("pnft.CreateDenom", "id", id, "name", b, "symbol", "s", "creator", o)}
		} else if len(topics) > 0 {
			t := topics[r.Intn(len(topics))]
			honest = []MsgSpec{M("aol.AddWriter", "topic", t[1], "owner", t[0], "writer", g.addr(7), "moniker", a, "desc", "")}
			forged = []MsgSpec{M("aol.AddWriter", "topic", t[1], "owner", t[0], "writer", g.addr(7), "moniker", b, "desc", "")}
		}
	case mode <= 2 && len(topics) > 0:
		t := topics[r.Intn(len(topics))]
		ws := g.planWriters(t[0], t[1])
		victim := g.addr(r.Intn(6))
		if len(ws) > 0 {
			victim = ws[r.Intn(len(ws))]
		}
		del := M("aol.DeleteWriter", "topic", t[1], "owner", t[0], "writer", victim)
		add := M("aol.AddWriter", "topic", t[1], "owner", t[0], "writer", victim, "moniker", "", "desc", "")
		switch mode {
		case 0: // sibling type with the same field names (empty optional fields)
			honest, forged = []MsgSpec{del}, []MsgSpec{add}
		case 1:
			honest, forged = []MsgSpec{add}, []MsgSpec{del}
		case 2: // one field changed
			add2 := M("aol.AddWriter", "topic", t[1], "owner", t[0], "writer", g.addr(8), "moniker", "", "desc", "")
			honest, forged = []MsgSpec{add}, []MsgSpec{add2}
		}
	case mode == 3 && len(g.planDids(true)) > 0:
		// create vs update carry the same fields
		did := g.planDids(true)[0]
		keys, mids := g.authKeys(did)
		if len(keys) == 0 {
			return
		}
		from := g.addr(r.Intn(4))
		doc := g.didDoc(did, []int{keys[0]}, 0)
		up := MsgSpec{T: "did.Update", F: map[string]string{"did": did, "from": from}, Doc: doc, Proof: &ProofSpec{Key: keys[0], MethodID: mids[0], Seq: "cur"}}
		cr := MsgSpec{T: "did.Create", F: map[string]string{"did": did, "from": from}, Doc: doc, Proof: &ProofSpec{Key: keys[0], MethodID: mids[0], Seq: "cur"}}
		honest, forged = []MsgSpec{cr}, []MsgSpec{up}
	case mode == 4 && len(g.planDenoms()) > 0:
		d := g.planDenoms()[r.Intn(len(g.planDenoms()))]
		owner := g.plan.Denoms[d].Owner
		honest = []MsgSpec{M("pnft.TransferDenom", "id", d, "sender", owner, "receiver", g.addr(2))}
		forged = []MsgSpec{M("pnft.TransferDenom", "id", d, "sender", owner, "receiver", g.addr(8))}
		if r.Chance(0.5) {
			honest = []MsgSpec{M("pnft.UpdateDenom", "id", d, "updater", owner)}
			forged = []MsgSpec{M("pnft.DeleteDenom", "id", d, "remover", owner)}
		}
	case mode == 5 && len(g.planDenoms()) > 0:
		// two messages of the same type; the forged list differs in ONE field of the FIRST message, same length
		d := g.planDenoms()[r.Intn(len(g.planDenoms()))]
		owner := g.plan.Denoms[d].Owner
		a := fmt.Sprintf("ta%03d", g.next%1000)
		c := fmt.Sprintf("tc%03d", g.next%1000)
		b := fmt.Sprintf("tb%03d", g.next%1000)
		mk := func(id string) MsgSpec { return M("pnft.Mint", "denom", d, "id", id, "name", "n", "creator", owner) }
		honest, forged = []MsgSpec{mk(a), mk(b)}, []MsgSpec{mk(c), mk(b)}
	default: // extra / removed / reordered message
		o := g.addr(r.Intn(4))
		a := M("aol.CreateTopic", "topic", fmt.Sprintf("tam%d", g.next), "owner", o)
		b := M("pnft.CreateDenom", "id", fmt.Sprintf("tam%d", g.next), "name", "n", "symbol", "s", "creator", o)
		switch r.Intn(3) {
		case 0:
			honest, forged = []MsgSpec{a}, []MsgSpec{a, b}
		case 1:
			honest, forged = []MsgSpec{a, b}, []MsgSpec{a}
		case 2:
			honest, forged = []MsgSpec{a, b}, []MsgSpec{b, a}
		}
	}
	if honest == nil {
		return
	}
	spec := &TxSpec{Msgs: forged, SignOver: honest}
	spec.Modes = []SigMode{[]SigMode{ModeDirect, ModeAmino, ModeAmino}[r.Intn(3)]}
	g.emit(spec)
	if r.Chance(0.3) {
		g.emit(&TxSpec{Msgs: honest})
	}
}

// famRollback: "dependent pair under rollback". m2 is only allowed once m1 has taken effect. The pair is executed on
// state that is then thrown away - as one transaction [m1, m2, failing message] that is rolled back as a whole, or as
// a simulation that is never broadcast - and afterwards m2 is submitted alone: it must be refused exactly as if the
// discarded execution had never happened (anything kept outside the store would show here).
func (g *Gen) famRollback() {
	r := g.rng
	var m1, m2 MsgSpec
	var follow []MsgSpec
	dens := g.planDenoms()
	toks := g.planTokens()
	topics := g.planTopics()
	act := g.planDids(true)
	kind := r.Intn(12)
	switch {
	case kind == 9 && len(act) > 0: // a DID deactivated on discarded state is still alive: its owner can update it
		did := act[r.Intn(len(act))]
		keys, mids := g.authKeys(did)
		if len(keys) == 0 {
			return
		}
		from := g.addr(r.Intn(4))
		m1 = MsgSpec{T: "did.Deactivate", F: map[string]string{"did": did, "from": from}, Proof: &ProofSpec{Key: keys[0], MethodID: mids[0], Seq: "cur"}}
		m2 = MsgSpec{T: "did.Update", F: map[string]string{"did": did, "from": from}, Doc: g.didDoc(did, []int{keys[0]}, 0), Proof: &ProofSpec{Key: keys[0], MethodID: mids[0], Seq: "cur+1"}}
		follow = []MsgSpec{{T: "did.Update", F: map[string]string{"did": did, "from": from}, Doc: g.didDoc(did, []int{keys[0]}, 0), Proof: &ProofSpec{Key: keys[0], MethodID: mids[0], Seq: "cur"}}}
	case kind == 10 && len(toks) > 0: // a token burnt on discarded state still exists: its owner can transfer it
		t := toks[r.Intn(len(toks))]
		a := g.plan.Tokens[t[0]][t[1]].Owner
		if g.env.AccByAddr(mustAddr(a)) == nil {
			return
		}
		m1 = M("pnft.Burn", "denom", t[0], "id", t[1], "burner", a)
		m2 = M("pnft.Transfer", "denom", t[0], "id", t[1], "sender", a, "receiver", g.addr(2))
		follow = []MsgSpec{M("pnft.Transfer", "denom", t[0], "id", t[1], "sender", a, "receiver", g.addr(5+r.Intn(4)))}
	case kind == 11 && len(topics) > 0: // a writer removed on discarded state is still listed (and can be removed for real)
		t := topics[r.Intn(len(topics))]
		ws := g.planWriters(t[0], t[1])
		if len(ws) == 0 {
			return
		}
		m1 = M("aol.DeleteWriter", "topic", t[1], "owner", t[0], "writer", ws[0])
		m2 = M("aol.DeleteWriter", "topic", t[1], "owner", t[0], "writer", ws[0])
		follow = []MsgSpec{M("aol.DeleteWriter", "topic", t[1], "owner", t[0], "writer", ws[0]), M("aol.AddWriter", "topic", t[1], "owner", t[0], "writer", ws[0], "moniker", "back")}
	case kind == 6: // a topic created on discarded state: afterwards it does not exist (no writer can be added, it can be created)
		o := g.addr(r.Intn(5))
		t := fmt.Sprintf("rbt%d", g.next)
		m1 = M("aol.CreateTopic", "topic", t, "owner", o)
		m2 = M("aol.AddWriter", "topic", t, "owner", o, "writer", g.addr(6), "moniker", "rb")
		follow = []MsgSpec{M("aol.AddWriter", "topic", t, "owner", o, "writer", g.addr(7), "moniker", "after"), g.recordSpec(o, t, g.addr(6), ""),
			M("aol.CreateTopic", "topic", t, "owner", o), M("aol.AddWriter", "topic", t, "owner", o, "writer", g.addr(7), "moniker", "now")}
	case kind == 7: // a denom created (and minted into) on discarded state: afterwards anybody else may create it, its would-be owner has no rights
		a, b := g.addr(r.Intn(4)), g.addr(5+r.Intn(4))
		d := fmt.Sprintf("rbd%d", g.next)
		m1 = M("pnft.CreateDenom", "id", d, "name", "n", "symbol", "s", "creator", a)
		m2 = M("pnft.Mint", "denom", d, "id", "t1", "name", "n", "creator", a)
		follow = []MsgSpec{M("pnft.Mint", "denom", d, "id", "t2", "name", "n", "creator", a), M("pnft.CreateDenom", "id", d, "name", "other", "symbol", "o", "creator", b),
			M("pnft.Mint", "denom", d, "id", "t3", "name", "n", "creator", a), M("pnft.UpdateDenom", "id", d, "name", "hijack", "updater", a), M("pnft.Mint", "denom", d, "id", "t4", "name", "n", "creator", b)}
	case kind == 8: // a DID created on discarded state: afterwards it does not exist
		k := -1
		for i := SharedKeys; i < NumDidKeys; i++ {
			if g.plan.Did[g.env.Dids[i]] == nil {
				k = i
			}
		}
		if k < 0 {
			return
		}
		did := g.env.Dids[k]
		mid := fmt.Sprintf("%s#key%d", did, k)
		from := g.addr(r.Intn(4))
		m1 = MsgSpec{T: "did.Create", F: map[string]string{"did": did, "from": from}, Doc: g.didDoc(did, []int{k}, 0), Proof: &ProofSpec{Key: k, MethodID: mid, Seq: "0"}}
		m2 = MsgSpec{T: "did.Update", F: map[string]string{"did": did, "from": from}, Doc: g.didDoc(did, []int{k}, 0), Proof: &ProofSpec{Key: k, MethodID: mid, Seq: "0"}}
		follow = []MsgSpec{{T: "did.Update", F: map[string]string{"did": did, "from": from}, Doc: g.didDoc(did, []int{k}, 0), Proof: &ProofSpec{Key: k, MethodID: mid, Seq: "cur"}},
			{T: "did.Deactivate", F: map[string]string{"did": did, "from": from}, Proof: &ProofSpec{Key: k, MethodID: mid, Seq: "cur"}}}
	case kind == 5 && len(topics) > 0: // appends on discarded state, then a committed append: offsets must not skip
		t := topics[r.Intn(len(topics))]
		ws := g.planWriters(t[0], t[1])
		if len(ws) == 0 || g.env.AccByAddr(mustAddr(ws[0])) == nil {
			return
		}
		m1 = g.recordSpec(t[0], t[1], ws[0], "")
		m2 = g.recordSpec(t[0], t[1], ws[0], "")
		follow = []MsgSpec{g.recordSpec(t[0], t[1], ws[0], ""), g.recordSpec(t[0], t[1], ws[0], "")}
	case kind == 0 && len(dens) > 0: // hand a denom over, the receiver mints
		d := dens[r.Intn(len(dens))]
		a := g.plan.Denoms[d].Owner
		b := g.addr(5 + r.Intn(4))
		if sameAddr(a, b) || g.env.AccByAddr(mustAddr(a)) == nil {
			return
		}
		m1 = M("pnft.TransferDenom", "id", d, "sender", a, "receiver", b)
		m2 = M("pnft.Mint", "denom", d, "id", fmt.Sprintf("rb%d", g.next), "name", "n", "creator", b)
		follow = []MsgSpec{M("pnft.Mint", "denom", d, "id", fmt.Sprintf("rbf%d", g.next), "name", "n", "creator", b), M("pnft.Mint", "denom", d, "id", fmt.Sprintf("rbo%d", g.next), "name", "n", "creator", a)}
	case kind == 1 && len(toks) > 0: // transfer a token, the receiver burns it
		t := toks[r.Intn(len(toks))]
		a := g.plan.Tokens[t[0]][t[1]].Owner
		b := g.addr(5 + r.Intn(4))
		if sameAddr(a, b) || g.env.AccByAddr(mustAddr(a)) == nil {
			return
		}
		m1 = M("pnft.Transfer", "denom", t[0], "id", t[1], "sender", a, "receiver", b)
		m2 = M("pnft.Transfer", "denom", t[0], "id", t[1], "sender", b, "receiver", g.addr(1))
		follow = []MsgSpec{M("pnft.Burn", "denom", t[0], "id", t[1], "burner", b)}
	case kind == 2 && len(topics) > 0: // add a writer, the writer appends
		t := topics[r.Intn(len(topics))]
		w := g.addr(5 + r.Intn(4))
		for _, ex := range g.planWriters(t[0], t[1]) {
			if ex == w {
				return
			}
		}
		m1 = M("aol.AddWriter", "topic", t[1], "owner", t[0], "writer", w, "moniker", "rb")
		m2 = g.recordSpec(t[0], t[1], w, "")
		follow = []MsgSpec{g.recordSpec(t[0], t[1], w, "")}
	case kind == 3 && len(topics) > 0: // remove a writer (rolled back): the writer must still be able to append
		t := topics[r.Intn(len(topics))]
		ws := g.planWriters(t[0], t[1])
		if len(ws) == 0 || g.env.AccByAddr(mustAddr(ws[0])) == nil {
			return
		}
		m1 = M("aol.DeleteWriter", "topic", t[1], "owner", t[0], "writer", ws[0])
		m2 = M("aol.CreateTopic", "topic", fmt.Sprintf("rb%d", g.next), "owner", t[0])
		follow = []MsgSpec{g.recordSpec(t[0], t[1], ws[0], "")}
	case len(act) > 0: // rotate a DID key, the new key acts
		did := act[r.Intn(len(act))]
		keys, mids := g.authKeys(did)
		if len(keys) == 0 {
			return
		}
		nk := (keys[0] + 1 + r.Intn(6)) % NumDidKeys
		if nk == keys[0] {
			return
		}
		from := g.addr(r.Intn(4))
		nmid := fmt.Sprintf("%s#key%d", did, nk)
		m1 = MsgSpec{T: "did.Update", F: map[string]string{"did": did, "from": from}, Doc: g.didDoc(did, []int{nk}, 0), Proof: &ProofSpec{Key: keys[0], MethodID: mids[0], Seq: "cur"}}
		m2 = MsgSpec{T: "did.Update", F: map[string]string{"did": did, "from": from}, Doc: g.didDoc(did, []int{nk, keys[0]}, 0), Proof: &ProofSpec{Key: nk, MethodID: nmid, Seq: "cur+1"}}
		follow = []MsgSpec{{T: "did.Deactivate", F: map[string]string{"did": did, "from": from}, Proof: &ProofSpec{Key: nk, MethodID: nmid, Seq: "cur"}}}
	default:
		return
	}
	actor := m1.F[firstActorField(m1)]
	if m1.T == "aol.AddRecord" {
		actor = m1.F["writer"]
	}
	bad := M("aol.AddWriter", "topic", "no-such-topic-rollback", "owner", actor, "writer", g.addr(0))
	if m1.T[:3] == "did" {
		bad = M("aol.AddWriter", "topic", "no-such-topic-rollback", "owner", m1.F["from"], "writer", g.addr(0))
	}
	spec := &TxSpec{Msgs: []MsgSpec{m1, m2, bad}, Note: "rolled back as a whole"}
	if r.Chance(0.35) {
		g.emitSimulate(spec, r.Intn(g.nrep))
	} else {
		g.emit(spec)
	}
	for _, f := range follow {
		g.emit(&TxSpec{Msgs: []MsgSpec{f}, Note: "after rollback", Hold: r.Pick([]int{3, 1})})
	}
}

func firstActorField(m MsgSpec) string {
	for _, k := range []string{"owner", "sender", "creator", "updater", "remover", "burner", "from"} {
		if _, ok := m.F[k]; ok {
			return k
		}
	}
	return "owner"
}

// emitSimulate: the transaction is only simulated on one replica and never broadcast.
func (g *Gen) emitSimulate(t *TxSpec, replica int) {
	g.next++
	g.steps = append(g.steps, Step{K: "simulate", ID: g.next, Tx: t, Replica: replica})
	g.specs[g.next] = t
}
