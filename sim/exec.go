package main

import (
	"bytes"
	"crypto/sha256"
	"encoding/hex"
	"fmt"
	"hash"
	"os"
	"path/filepath"
	"sort"
	"strings"
	"time"

	abci "github.com/cometbft/cometbft/abci/types"
	sdk "github.com/cosmos/cosmos-sdk/types"
	authsigning "github.com/cosmos/cosmos-sdk/x/auth/signing"
	authtypes "github.com/cosmos/cosmos-sdk/x/auth/types"
	distrtypes "github.com/cosmos/cosmos-sdk/x/distribution/types"
	govv1 "github.com/cosmos/cosmos-sdk/x/gov/types/v1"
	"github.com/cosmos/cosmos-sdk/x/authz"
	upgradetypes "github.com/cosmos/cosmos-sdk/x/upgrade/types"
	aoltypes "github.com/medibloc/panacea-core/v2/x/aol/types"
	didtypes "github.com/medibloc/panacea-core/v2/x/did/types"
)

// ---------------------------------------------------------------------------------------------

type Stats struct {
	C map[string]int64
}

func (s *Stats) Inc(k string)          { s.C[k]++ }
func (s *Stats) Add(k string, n int64) { s.C[k] += n }

type Trace struct {
	h     hash.Hash
	n     uint64 // global event sequence number
	tail  []string
	w     *os.File
	quiet bool
}

func NewTrace(path string) *Trace {
	t := &Trace{h: sha256.New()}
	if path != "" {
		f, err := os.Create(path)
		if err == nil {
			t.w = f
		}
	}
	return t
}

// Ev records one simulated event. Nothing here draws randomness or reads a clock.
func (t *Trace) Ev(f string, a ...interface{}) uint64 {
	t.n++
	line := fmt.Sprintf("%06d ", t.n) + fmt.Sprintf(f, a...)
	t.h.Write([]byte(line))
	t.h.Write([]byte{'\n'})
	if t.w != nil {
		t.w.WriteString(line + "\n")
	}
	t.tail = append(t.tail, line)
	if len(t.tail) > 40 {
		t.tail = t.tail[len(t.tail)-40:]
	}
	return t.n
}
func (t *Trace) Sum() string { return hex.EncodeToString(t.h.Sum(nil)) }
func (t *Trace) Close() {
	if t.w != nil {
		t.w.Close()
	}
}

type TxResult struct {
	Code      uint32
	Codespace string
	Data      []byte
	GasWanted int64
	GasUsed   int64
	EventsH   string
	Log       string
}

func resOf(r abci.ResponseDeliverTx) TxResult {
	h := sha256.New()
	for _, ev := range r.Events {
		h.Write([]byte(ev.Type))
		for _, a := range ev.Attributes {
			h.Write([]byte{0})
			h.Write([]byte(a.Key))
			h.Write([]byte{1})
			h.Write([]byte(a.Value))
		}
		h.Write([]byte{2})
	}
	return TxResult{Code: r.Code, Codespace: r.Codespace, Data: r.Data, GasWanted: r.GasWanted, GasUsed: r.GasUsed, EventsH: hex.EncodeToString(h.Sum(nil)[:8]), Log: r.Log}
}

// SameConsensus compares the consensus-relevant fields. GasUsed is compared only for transactions that got
// past the ante handler (GasWanted > 0): for a transaction refused before the ante handler installs its own
// gas meter, baseapp reports the consumption of the block-wide deliver context instead, which includes
// once-per-process work of SDK BeginBlockers (x/upgrade's downgrade verification) — an SDK artefact that
// differs between a fresh and a long-running process and says nothing about panacea-core.
func (a TxResult) SameConsensus(b TxResult) bool {
	if a.Code != b.Code || a.Codespace != b.Codespace || !bytes.Equal(a.Data, b.Data) || a.GasWanted != b.GasWanted || a.EventsH != b.EventsH {
		return false
	}
	return a.GasWanted == 0 || a.GasUsed == b.GasUsed
}

type BlockRec struct {
	B        *Block
	TxIDs    []int
	Results  []TxResult
	EndH     string // hash of EndBlock events + validator updates
	AppHash  []byte
	Plan     *upgradetypes.Plan // scheduled inside this block (takes effect at Height+1)
	EarlyPlan *upgradetypes.Plan // a plan for a height several blocks ahead that every node skips by agreement (no handler, --unsafe-skip-upgrades): it sits in the committed state meanwhile
	PlanViaGov bool // the plan was put in place by a governance proposal (x/gov executed MsgSoftwareUpgrade), not by the harness
	FlatHash string
	Panel    []PanelReq
	PanelH   string
	SmallH   string
	Model    *Model
}

type Replica struct {
	*Node
	Applied     int64 // last height fully applied (committed)
	LagUntil    int64 // receives nothing until the head reaches this height
	Boot        bool  // bootstrapped from an export (different app hashes by design)
	FirstHeight int64
	Crash       *CrashAt // armed for the next block it applies
	CrashLoss   string
	NextCfg     *NodeCfg
	NoInfoFile  bool
	Dead        bool // failed to start: reported
	Genesis     *abci.RequestInitChain // what the node was initialised with (re-sent by the handshake while nothing is committed)
	PrunedEver  bool                   // ran at some point with a pruning configuration other than "nothing"
}

type pendingTx struct {
	ID    int
	Spec  *TxSpec
	Due   int64 // first block height at which it may be included
	Order int
}

type ackedRecord struct {
	Owner  string // bech32
	OwnerB string
	Topic  string
	Offset uint64
	Key    []byte
	Value  []byte
	Writer string
	Ts     int64
	Height int64
}

type acceptedDidMsg struct {
	TxID, MsgIdx int
	Height       int64
}

type Exec struct {
	S       *Script
	Env     *Env
	Scratch string
	Prop    string
	Known   *KnownFindings

	R       []*Replica
	Model   *Model
	Mempool []*pendingTx
	Blocks  []*BlockRec // Blocks[h-1]
	Built   map[int]*BuiltTx
	BuiltMsgs map[int][]sdk.Msg
	Now     time.Time
	Trace   *Trace
	Stats   *Stats

	Viol      []*Violation // reportable violations of S.Property
	KnownHits []string
	Foreign   []*Violation
	stop      bool
	stepIdx   int
	tainted   map[string]bool

	ledger       []ackedRecord
	didAccepted  []acceptedDidMsg
	signMap      map[string]signedBody // sign-bytes hash -> message list it was computed for (C14 injectivity)
	nextPlan     *upgradetypes.Plan
	nextEarly    int
	snapshots    map[int64]*SimDB // DB of R0 right after Commit(h) (for crash enumeration)
	simTime      time.Duration
	bootCount    int
	orderCtr     int
	writerRemoved map[string]bool // owner|topic|writer removed at least once (probe)
	maxTxID      int
	inEpilogue   bool
	H0           int64 // height of the (virtual) block before the first one: the chain starts at H0+1
	touchedByFailed map[string]bool // entities named by messages of a failed multi-message transaction
	KeepApps     bool
	isSub        bool // a chain built inside a probe of another run
	lastBlockParams string
	exportedCP   *tmConsensusParams
	OnCommit     func(h int64) // race sub-check: called on the block goroutine after every Commit of the reference replica
}

func NewExec(s *Script, env *Env, scratch string, known *KnownFindings, tracePath string) *Exec {
	return &Exec{S: s, Env: env, Scratch: scratch, Prop: s.Property, Known: known,
		Built: map[int]*BuiltTx{}, BuiltMsgs: map[int][]sdk.Msg{}, Trace: NewTrace(tracePath), Stats: &Stats{C: map[string]int64{}},
		tainted: map[string]bool{}, signMap: map[string]signedBody{}, snapshots: map[int64]*SimDB{}, writerRemoved: map[string]bool{}}
}

// ---------------------------------------------------------------------------------------------
// violations

func propOfSection(key string) string {
	switch {
	case strings.HasPrefix(key, "aol/record"):
		return "C01"
	case strings.HasPrefix(key, "aol/writer"):
		return "C02"
	case strings.HasPrefix(key, "aol/"):
		return "C13"
	case strings.HasPrefix(key, "did/"):
		return "C03"
	case strings.HasPrefix(key, "pnft/"):
		return "C06"
	}
	return "C09"
}

// violate registers a violation. Violations of other properties than the one this run decides, and
// listed known findings, resynchronise the model from the implementation and let the run continue.
func (e *Exec) violate(v *Violation) {
	v.AtStep = e.stepIdx
	if v.Height == 0 {
		v.Height = e.head() + 1
	}
	e.Trace.Ev("VIOLATION prop=%s class=%s entity=%s detail=%s", v.Property, v.Class, v.Entity, trunc(v.Detail, 300))
	if v.Entity != "" && e.tainted[v.Property+"|"+v.Entity] {
		e.Stats.Inc("violation.suppressed_tainted")
		return
	}
	if kf := e.Known.Match(v); kf != nil {
		if v.Property == e.Prop || e.Prop == "ALL" {
			e.KnownHits = append(e.KnownHits, fmt.Sprintf("property=%s %s", v.Property, kf.What))
		}
		e.Stats.Inc("known_finding." + v.Property + "." + v.Class)
		if v.Entity != "" {
			e.tainted[v.Property+"|"+v.Entity] = true
		}
		return
	}
	if v.Property != e.Prop && e.Prop != "ALL" {
		e.Foreign = append(e.Foreign, v)
		e.Stats.Inc("foreign_violation." + v.Property + "." + v.Class)
		if v.Entity != "" {
			e.tainted[v.Property+"|"+v.Entity] = true
		}
		return
	}
	e.Viol = append(e.Viol, v)
	e.stop = true
}

func (e *Exec) viol(prop, class, entity, f string, a ...interface{}) {
	e.violate(&Violation{Property: prop, Class: class, Entity: entity, Detail: fmt.Sprintf(f, a...)})
}

// resync adopts the implementation's custom-module state (after a violation that does not end the run).
func (e *Exec) resync(get StoreGetter) {
	ex := ExtractState(get)
	g := e.Model.Grants
	e.Model = ex.M
	e.Model.Grants = g
	e.Stats.Inc("model.resync")
}

// ---------------------------------------------------------------------------------------------
// run

func (e *Exec) Run() {
	defer e.Trace.Close()
	if tz := e.S.Config.TZ; tz != "" {
		// the host's time zone is a property of the machine a node runs on: nothing consensus-visible may depend on it
		if loc, err := time.LoadLocation(tz); err == nil {
			prev := time.Local
			time.Local = loc
			defer func() { time.Local = prev }()
			e.Stats.Inc("fault.clock.local_time_zone")
		}
	}
	if e.Prop == "C16" || e.Prop == "C17" {
		e.statelessSweep()
	}
	if e.Prop == "C04" && Keyed(e.S.Seed, "seq-binding", 0).Chance(0.3) {
		e.probeDidSeqBinding()
	}
	perNodeEnv = e.S.Config.EnvPerNode
	if perNodeEnv {
		e.Stats.Inc("fault.env.per_node_process_environment")
	}
	runSkipUpgrades = nil
	for _, h := range e.S.Config.SkipUpgradeHeights {
		runSkipUpgrades = append(runSkipUpgrades, int(h))
	}
	defer func() { runSkipUpgrades = nil }()
	defer func() {
		if e.KeepApps {
			return
		}
		for _, r := range e.R {
			r.App = nil
		}
	}()
	e.Trace.Ev("run seed=%d prop=%s profile=%s replicas=%d steps=%d", e.S.Seed, e.S.Property, e.S.Config.Profile, len(e.S.Config.Replicas), len(e.S.Steps))
	if !e.initChain() {
		return
	}
	for i := range e.S.Steps {
		if e.stop {
			break
		}
		e.stepIdx = i
		st := &e.S.Steps[i]
		switch st.K {
		case "tx":
			hold := 0
			if st.Tx != nil {
				hold = st.Tx.Hold
				if hold > 0 {
					e.Stats.Inc("fault.net.delay")
				}
				if st.Tx.ReplayOf != 0 {
					e.Stats.Inc("fault.net.replay_bytes")
				}
				if st.Tx.SignOver != nil {
					e.Stats.Inc("fault.net.tamper")
				}
			}
			e.orderCtr++
			if st.ID > e.maxTxID {
				e.maxTxID = st.ID
			}
			e.Mempool = append(e.Mempool, &pendingTx{ID: st.ID, Spec: st.Tx, Due: e.head() + 1 + int64(hold), Order: e.orderCtr})
			e.Trace.Ev("submit tx=%d hold=%d", st.ID, hold)
		case "block":
			e.produceBlock(st)
		case "crash":
			if st.Replica > 0 && st.Replica < len(e.R) && st.At != nil {
				r := e.R[st.Replica]
				c := *st.At
				r.Crash = &c
			}
		case "lag":
			if st.Replica > 0 && st.Replica < len(e.R) {
				e.R[st.Replica].LagUntil = e.head() + int64(st.Blocks)
				e.Stats.Inc("fault.net.partition")
				e.Trace.Ev("partition replica=%d until_height=%d", st.Replica, e.R[st.Replica].LagUntil)
			}
		case "reconfig":
			if st.Replica > 0 && st.Replica < len(e.R) && st.Cfg != nil {
				c := *st.Cfg
				e.R[st.Replica].NextCfg = &c
				e.R[st.Replica].NoInfoFile = st.NoInfo
			}
		case "bootstrap":
			e.bootstrap(st)
		case "restart0":
			e.restartReference()
		case "hquery":
			e.hostileQuery(st.HQ)
		case "simulate":
			e.simulateOnly(st)
		case "planahead":
			e.nextEarly = st.Ahead
		case "upgrade":
			name := "v2.2.1"
			if st.PlanName != "" {
				name = st.PlanName
			}
			e.nextPlan = &upgradetypes.Plan{Name: name, Height: e.head() + 2, Info: "panasim"}
		}
	}
	if !e.stop && !e.S.Config.EpilogueOff {
		e.epilogue()
	}
	if !e.stop {
		e.finalChecks()
	}
	e.probeStoreAddingUpgrade()
	e.Trace.Ev("end blocks=%d violations=%d known=%d foreign=%d", len(e.Blocks), len(e.Viol), len(e.KnownHits), len(e.Foreign))
}

// restartReference stops the reference replica cleanly between two blocks and starts it again on its database.
// Nothing is lost on disk; whatever the application kept in process memory only is. From here on the
// per-transaction oracles judge a restarted node, and the other replicas are compared with it.
func (e *Exec) restartReference() {
	r0 := e.R[0]
	if r0.inBlock || r0.App == nil || len(e.Blocks) == 0 {
		return
	}
	r0.Kill(-1)
	r0.Restarts++
	e.Stats.Inc("fault.restart.reference")
	prop := "C10"
	if e.nearUpgrade(e.head()) || e.nearUpgrade(e.head()+1) {
		prop = "C19"
	}
	if err := r0.Start(); err != nil {
		e.viol(prop, "node.start_failed", "", "the reference replica cannot be started again on its own database after a clean stop at height %d: %v", e.head(), err)
		e.stop = true
		return
	}
	if _, ok := e.verifyRestartState(r0.Node, false, r0.FirstHeight, []int64{e.head()}, "reference replica after a clean stop"); !ok {
		e.stop = true
		return
	}
	e.Trace.Ev("reference replica restarted at height %d", e.head())
}

func (e *Exec) initChain() bool {
	if ih := e.S.Config.InitialHeight; ih > 1 {
		e.H0 = ih - 1
	}
	cfgs := e.S.Config.Replicas
	if len(cfgs) == 0 {
		cfgs = []NodeCfg{{}}
	}
	gt := e.S.Config.Genesis.TimeUnix
	if gt == 0 {
		gt = 1700000000
	}
	e.Now = time.Unix(gt, 0).UTC()
	if e.S.Config.Genesis.ZeroTime {
		e.Now = time.Time{}
	}
	var genBytes []byte
	for i, c := range cfgs {
		n := NewNode(i, e.Env, c, e.Scratch)
		r := &Replica{Node: n, FirstHeight: e.H0 + 1, Applied: e.H0, PrunedEver: c.Pruning != "nothing"}
		e.R = append(e.R, r)
		if err := n.Start(); err != nil {
			e.viol("C10", "node.start_failed.genesis", "", "replica %d cannot start on an empty database: %v", i, err)
			return false
		}
		if i == 0 {
			var genErr interface{}
			func() {
				// the custom sections are rendered by the modules' own JSON codec (the one ExportGenesis output goes through)
				defer func() { genErr = recover() }()
				genBytes, e.Model = e.Env.BuildGenesis(n.App, &e.S.Config.Genesis)
			}()
			if genErr != nil {
				if e.Model == nil {
					e.Model = NewModel()
				}
				e.viol("C08", "genesis.codec_output_invalid", "", "the application's JSON codec cannot render a genesis file holding legal custom-module entries: %v", genErr)
				return false
			}
		}
		req := abci.RequestInitChain{ChainId: ChainID, ConsensusParams: consensusParams(), AppStateBytes: genBytes, Time: e.Now, InitialHeight: e.H0 + 1}
		r.Genesis = &req
		_, halt := n.guard("InitChain", func() { n.App.InitChain(req) })
		if halt != nil {
			e.viol("C08", "genesis.init_panic", "", "InitChain of the generated genesis panicked on replica %d: %s [%s]", i, halt.Panic, halt.Stack)
			return false
		}
	}
	e.Trace.Ev("initchain ok genesis_bytes=%d", len(genBytes))
	return true
}

func consensusParams() *tmConsensusParams { return defaultConsensusParams() }

// ---------------------------------------------------------------------------------------------
// block production on the reference replica (R0 is the sequencer's execution engine and the twin)

func (e *Exec) dueTxs(h int64, take int) []*pendingTx {
	var due, rest []*pendingTx
	for _, p := range e.Mempool {
		if p.Due <= h && (take == 0 || len(due) < take) {
			due = append(due, p)
		} else {
			rest = append(rest, p)
		}
	}
	e.Mempool = rest
	return due
}

func (e *Exec) produceBlock(st *Step) {
	h := e.head() + 1
	dt := st.DtNs
	if dt <= 0 {
		dt = int64(5 * time.Second)
	}
	if !e.S.Config.Genesis.ZeroTime {
		e.Now = e.Now.Add(time.Duration(dt))
		e.simTime += time.Duration(dt)
	}
	blk := &Block{Height: h, Time: e.Now}
	rec := &BlockRec{B: blk}
	r0 := e.R[0]
	r0.curHdr = blk
	e.Trace.Ev("block h=%d t=%d begin", h, e.Now.UnixNano())
	preHashes := CustomDumpHashes(r0.CommittedStores())

	isUpgradeBlock := len(e.Blocks) > 0 && e.Blocks[len(e.Blocks)-1].Plan != nil
	_, halt := r0.guard("BeginBlock", func() { r0.App.BeginBlock(e.Env.BeginReq(blk)) })
	if halt != nil {
		prop := "C17"
		if isUpgradeBlock {
			prop = "C19"
		}
		e.viol(prop, "halt.beginblock", "", "BeginBlock(%d) panicked: %s [%s]", h, halt.Panic, halt.Stack)
		e.stop = true
		return
	}
	r0.inBlock = true
	e.legacyState(r0.Node, h)
	if hs := CustomDumpHashes(r0.DeliverStores()); h > e.H0+1 && !sameHashes(preHashes, hs) {
		prop := "C10"
		if isUpgradeBlock {
			prop = "C19"
		}
		e.viol(prop, "custom_state.changed_in_beginblock", "", "custom stores changed during BeginBlock(%d): %v -> %v", h, preHashes, hs)
		e.resync(r0.DeliverStores())
	}

	r0rng := Keyed(e.S.Seed, "mid-r0", uint64(h))
	for _, p := range e.dueTxs(h, st.Take) {
		if e.stop {
			return
		}
		e.deliverOnR0(p, blk, rec)
		if !e.stop && e.S.Config.MidBlockRate > 0 && r0rng.Chance(e.S.Config.MidBlockRate) {
			// simulated query / CheckTx / Simulate tasks scheduled between two DeliverTx calls of the reference replica
			e.midBlockTasks(r0.Node, h, len(rec.TxIDs), applyOpts{Tag: "reference replica", HistoryOK: true}, r0rng)
		}
	}
	if e.stop {
		return
	}
	if e.nextEarly > 0 {
		plan := upgradetypes.Plan{Name: "v8.8.8-never-built", Height: h + 1 + int64(e.nextEarly), Info: "panasim"}
		e.nextEarly = 0
		_, halt := r0.guard("ScheduleUpgrade", func() {
			if err := r0.App.UpgradeKeeper.ScheduleUpgrade(r0.DeliverCtx(), plan); err != nil {
				panic(err)
			}
		})
		if halt == nil {
			rec.EarlyPlan = &plan
			e.Stats.Inc("fault.upgrade.pending_plan_for_skipped_height")
			e.Trace.Ev("upgrade plan %s scheduled for height %d (skipped by agreement)", plan.Name, plan.Height)
		}
	}
	if e.nextPlan != nil {
		plan := *e.nextPlan
		plan.Height = h + 1
		e.nextPlan = nil
		rec.Plan = &plan
		_, halt := r0.guard("ScheduleUpgrade", func() {
			if err := r0.App.UpgradeKeeper.ScheduleUpgrade(r0.DeliverCtx(), plan); err != nil {
				panic(err)
			}
		})
		if halt != nil {
			e.Trace.Ev("schedule upgrade failed: %s", halt.Panic)
			rec.Plan = nil
		} else {
			e.Stats.Inc("fault.upgrade.scheduled")
			e.Trace.Ev("upgrade plan %s scheduled for height %d", plan.Name, plan.Height)
		}
	}

	e.endAndCommitR0(blk, rec, isUpgradeBlock)
	if e.stop {
		return
	}
	e.Blocks = append(e.Blocks, rec)
	e.Stats.Inc("blocks")
	e.afterCommitChecks(rec)
	if e.stop {
		return
	}
	if e.OnCommit != nil {
		e.OnCommit(h)
	}
	// deliver to the other replicas
	for i := 1; i < len(e.R); i++ {
		if e.stop {
			return
		}
		e.feedReplica(e.R[i])
	}
}

func sameHashes(a, b map[string]string) bool {
	for _, s := range customStores {
		if a[s] != b[s] {
			return false
		}
	}
	return true
}

func changedStores(a, b map[string]string) []string {
	var out []string
	for _, s := range customStores {
		if a[s] != b[s] {
			out = append(out, s)
		}
	}
	return out
}

// bankSnapshot reads every balance and the total supply (SDK keeper = trusted base).
type bankSnap struct {
	Bal    map[string]string // addr|denom -> amount
	Supply map[string]string
}

func (e *Exec) bankSnapshot(ctx sdk.Context, n *Node) *bankSnap {
	s := &bankSnap{Bal: map[string]string{}, Supply: map[string]string{}}
	n.App.BankKeeper.IterateAllBalances(ctx, func(a sdk.AccAddress, c sdk.Coin) bool {
		s.Bal[a.String()+"|"+c.Denom] = c.Amount.String()
		return false
	})
	n.App.BankKeeper.IterateTotalSupply(ctx, func(c sdk.Coin) bool {
		s.Supply[c.Denom] = c.Amount.String()
		return false
	})
	return s
}

func diffSnap(a, b map[string]string) map[string][2]string {
	out := map[string][2]string{}
	for k, v := range a {
		if b[k] != v {
			out[k] = [2]string{v, b[k]}
		}
	}
	for k, v := range b {
		if _, ok := a[k]; !ok {
			out[k] = [2]string{"", v}
		}
	}
	return out
}

func (e *Exec) endAndCommitR0(blk *Block, rec *BlockRec, isUpgradeBlock bool) {
	r0 := e.R[0]
	h := blk.Height
	ctx := r0.DeliverCtx()
	preHashes := CustomDumpHashes(r0.DeliverStores())
	// C07 observation around EndBlock
	burnAddr, _ := sdk.AccAddressFromBech32(BurnAddress)
	pre := e.bankSnapshot(ctx, r0.Node)
	spendable := r0.App.BankKeeper.SpendableCoins(ctx, burnAddr)
	// accounts that x/gov's EndBlocker will pay in this block (deposits of proposals whose voting or deposit period ends
	// now go back to their depositors): those movements are not the burn's
	govTouched := map[string]bool{}
	func() {
		defer func() { recover() }()
		for _, p := range r0.App.GovKeeper.GetProposals(ctx) {
			ends := (p.VotingEndTime != nil && p.Status == govv1.StatusVotingPeriod && !p.VotingEndTime.After(blk.Time)) ||
				(p.DepositEndTime != nil && p.Status == govv1.StatusDepositPeriod && !p.DepositEndTime.After(blk.Time))
			if !ends {
				continue
			}
			govTouched[sdk.AccAddress(authtypes.NewModuleAddress("gov")).String()] = true
			govTouched[sdk.AccAddress(authtypes.NewModuleAddress("distribution")).String()] = true // community-pool spends of a passing proposal
			for _, d := range r0.App.GovKeeper.GetDeposits(ctx, p.Id) {
				govTouched[d.Depositor] = true
			}
			if msgs, err := p.GetMsgs(); err == nil {
				for _, m := range msgs {
					if sp, ok := m.(*distrtypes.MsgCommunityPoolSpend); ok {
						govTouched[sp.Recipient] = true
					}
				}
			}
		}
	}()
	var endRes abci.ResponseEndBlock
	_, halt := r0.guard("EndBlock", func() { endRes = r0.App.EndBlock(abci.RequestEndBlock{Height: h}) })
	if halt != nil {
		// both C07 ("processing a block never halts because of the burn address's state") and C17 ("end-of-block
		// processing can never be halted") name this; report it under whichever of the two is being checked
		prop := "C17"
		if e.Prop == "C07" && (strings.Contains(halt.Stack, "x/burn") || strings.Contains(halt.Panic, "burn") || strings.Contains(halt.Panic, "invariant")) {
			prop = "C07"
		}
		e.viol(prop, "halt.endblock", "", "EndBlock(%d) panicked: %s [%s]", h, halt.Panic, halt.Stack)
		e.stop = true // the chain is halted: nothing after this point means anything
		return
	}
	ctx = r0.DeliverCtx()
	post := e.bankSnapshot(ctx, r0.Node)
	// coins that reach the burn address inside this EndBlock (a passing governance proposal spends from the community
	// pool or the gov account to it) are, with the application's EndBlocker order, burnt in the same EndBlock
	inflow := sdk.Coins{}
	for _, ev := range endRes.Events {
		if ev.Type != "coin_received" {
			continue
		}
		var recv, amt string
		for _, a := range ev.Attributes {
			switch a.Key {
			case "receiver":
				recv = a.Value
			case "amount":
				amt = a.Value
			}
		}
		if recv == burnAddr.String() {
			if cs, err := sdk.ParseCoinsNormalized(amt); err == nil {
				inflow = inflow.Add(cs...)
				e.Stats.Inc("probe.burn.inflow_during_endblock")
			}
		}
	}
	e.checkBurn(h, burnAddr, spendable.Add(inflow...), pre, post, ctx, r0.Node, govTouched)
	if hs := CustomDumpHashes(r0.DeliverStores()); !sameHashes(preHashes, hs) {
		e.viol("C17", "custom_state.changed_in_endblock", "", "custom stores changed during EndBlock(%d): %v", h, changedStores(preHashes, hs))
		e.resync(r0.DeliverStores())
	}
	eh := sha256.New()
	for _, ev := range endRes.Events {
		eh.Write([]byte(ev.String()))
	}
	for _, vu := range endRes.ValidatorUpdates {
		eh.Write([]byte(vu.String()))
	}
	rec.EndH = hex.EncodeToString(eh.Sum(nil)[:8])
	var cr abci.ResponseCommit
	_, halt = r0.guard("Commit", func() { cr = r0.App.Commit() })
	if halt != nil {
		e.viol("C17", "halt.commit", "", "Commit(%d) panicked: %s [%s]", h, halt.Panic, halt.Stack)
		e.stop = true
		return
	}
	r0.inBlock = false
	r0.Applied = h
	rec.AppHash = cr.Data
	e.Trace.Ev("block h=%d committed apphash=%x txs=%d", h, cr.Data, len(rec.B.Txs))
	if rec.Plan == nil {
		// a plan that governance put in place (MsgSoftwareUpgrade executed by x/gov in some EndBlock) and that is due in
		// the next block: from here on it is treated like a plan scheduled by the harness
		func() {
			defer func() { recover() }()
			if plan, ok := r0.App.UpgradeKeeper.GetUpgradePlan(r0.App.NewContext(true, e.Env.Header(blk))); ok && plan.Height == h+1 {
				p := plan
				rec.Plan, rec.PlanViaGov = &p, true
				e.Stats.Inc("fault.upgrade.scheduled_by_governance")
				e.Trace.Ev("upgrade plan %s (governance) due at height %d", plan.Name, plan.Height)
			}
		}()
	}
	if rec.Plan != nil {
		for _, r := range e.R {
			e.dumpUpgradeInfo(r, rec.Plan)
		}
	}
}

// legacyState: the simulated chain starts at genesis with the current binary, a live chain has come through the
// earlier releases. What those left behind in the state and still matters to an upgrade handler is written in the first
// block of every replica (the same bytes everywhere): the module version map still lists the modules that a later
// release removed (v2.0.5 recorded "wasm": 1, v2.0.6 deleted its store; x/upgrade never deletes version-map entries).
func (e *Exec) legacyState(n *Node, h int64) {
	if !e.S.Config.LegacyVersionMap || h != e.H0+1 {
		return
	}
	_, _ = n.guard("legacyState", func() {
		// ... and the custom modules at consensus version 1, the lowest there is: what every earlier release recorded for them.
		// A binary that ships a higher version runs its migrations in the upgrade block, on a populated chain.
		n.App.UpgradeKeeper.SetModuleVersionMap(n.DeliverCtx(), map[string]uint64{"wasm": 1, "aol": 1, "did": 1, "pnft": 1, "burn": 1})
	})
	if n.ID == 0 {
		e.Stats.Inc("fault.upgrade.legacy_version_map")
	}
}

func (e *Exec) dumpUpgradeInfo(r *Replica, plan *upgradetypes.Plan) {
	p := filepath.Join(r.Home, "data", "upgrade-info.json")
	_ = os.MkdirAll(filepath.Dir(p), 0o755)
	_ = os.WriteFile(p, []byte(fmt.Sprintf(`{"name":%q,"height":%d,"info":%q}`, plan.Name, plan.Height, plan.Info)), 0o644)
}

// checkBurn: C07 around the EndBlock of one block.
func (e *Exec) checkBurn(h int64, burnAddr sdk.AccAddress, spendableBefore sdk.Coins, pre, post *bankSnap, ctx sdk.Context, n *Node, govTouched map[string]bool) {
	ba := burnAddr.String()
	// 1. spendable balance of the sink is zero in every denomination after EndBlock
	after := n.App.BankKeeper.SpendableCoins(ctx, burnAddr)
	if !after.IsZero() {
		e.viol("C07", "burn.spendable_left", "burn", "after EndBlock(%d) the burn address still has spendable %s (spendable before EndBlock: %s)", h, after, spendableBefore)
	}
	if !spendableBefore.IsZero() {
		e.Stats.Inc("probe.burn.nonzero_deposit_block")
	}
	// 2. supply shrinks by exactly what was spendable
	for _, c := range spendableBefore {
		b, _ := sdk.NewIntFromString(orZero(pre.Supply[c.Denom]))
		a, _ := sdk.NewIntFromString(orZero(post.Supply[c.Denom]))
		if !b.Sub(a).Equal(c.Amount) {
			e.viol("C07", "burn.supply_delta", "burn", "EndBlock(%d): supply of %s went %s -> %s but %s was spendable at the burn address", h, c.Denom, b, a, c.Amount)
		}
	}
	for d, v := range pre.Supply {
		if spendableBefore.AmountOf(d).IsZero() && post.Supply[d] != v {
			e.viol("C07", "burn.supply_delta", "burn", "EndBlock(%d): supply of %s changed %s -> %s although nothing was spendable at the burn address", h, d, v, post.Supply[d])
		}
	}
	// 2b. the bank-wide accounting identity: total supply equals the sum of all balances, per denomination
	sums := map[string]sdk.Int{}
	for k, v := range post.Bal {
		den := k[strings.LastIndex(k, "|")+1:]
		a, ok := sdk.NewIntFromString(v)
		if !ok {
			continue
		}
		if cur, have := sums[den]; have {
			sums[den] = cur.Add(a)
		} else {
			sums[den] = a
		}
	}
	for den, sup := range post.Supply {
		s2, _ := sdk.NewIntFromString(sup)
		got, have := sums[den]
		if !have {
			got = sdk.ZeroInt()
		}
		if !got.Equal(s2) {
			e.viol("C07", "bank.supply_identity", "burn", "after EndBlock(%d): total supply of %s is %s but the balances sum to %s", h, den, s2, got)
			break
		}
	}
	// 3. no other account's balance is changed by the burn
	for k, ch := range diffSnap(pre.Bal, post.Bal) {
		if strings.HasPrefix(k, ba+"|") {
			continue
		}
		if govTouched[k[:strings.Index(k, "|")]] {
			e.Stats.Inc("probe.endblock.gov_refund")
			continue
		}
		e.viol("C07", "burn.other_balance_changed", "burn", "EndBlock(%d): balance %s changed %s -> %s", h, k, ch[0], ch[1])
		break
	}
}

func orZero(s string) string {
	if s == "" {
		return "0"
	}
	return s
}

// ---------------------------------------------------------------------------------------------
// one transaction on R0: build, predict, deliver, compare

func (e *Exec) buildCtx(blk *Block) *BuildCtx {
	return &BuildCtx{Env: e.Env, BlockTime: blk.Time,
		DidSeq: func(d string) (uint64, bool) {
			if en := e.Model.Did[d]; en != nil {
				return en.Seq, true
			}
			return 0, false
		},
		DidDoc: func(d string) *didtypes.DIDDocument {
			if en := e.Model.Did[d]; en != nil && !en.Tomb {
				return en.Doc
			}
			return nil
		},
		Built: func(tx, msg int) sdk.Msg {
			ms := e.BuiltMsgs[tx]
			if msg >= 0 && msg < len(ms) {
				return ms[msg]
			}
			return nil
		}}
}

func flattenMsgs(msgs []sdk.Msg) (all []sdk.Msg, customOnly bool) {
	customOnly = true
	for _, m := range msgs {
		if ex, ok := m.(*authz.MsgExec); ok {
			inner, err := ex.GetMessages()
			if err != nil {
				customOnly = false
				continue
			}
			for _, im := range inner {
				all = append(all, im)
				if !IsCustomMsg(im) {
					customOnly = false
				}
			}
			continue
		}
		all = append(all, m)
		if !IsCustomMsg(m) {
			customOnly = false
		}
	}
	return
}

func moduleOf(m sdk.Msg) string {
	u := sdk.MsgTypeURL(m)
	switch {
	case strings.HasPrefix(u, "/panacea.aol"):
		return "aol"
	case strings.HasPrefix(u, "/panacea.did"):
		return "did"
	case strings.HasPrefix(u, "/panacea.pnft"):
		return "pnft"
	}
	return "sdk"
}

func authPropOf(m sdk.Msg) string {
	switch moduleOf(m) {
	case "aol":
		return "C02"
	case "did":
		return "C03"
	case "pnft":
		return "C06"
	}
	return "C15"
}

func rejectPropOf(m sdk.Msg, why string) string {
	switch moduleOf(m) {
	case "aol":
		return "C02"
	case "did":
		switch why {
		case "did exists", "did deactivated":
			return "C05"
		case "document id differs from did", "proof made for another identifier":
			return "C11"
		case "proof made over another sequence":
			return "C04"
		}
		return "C03"
	case "pnft":
		switch why {
		case "token exists", "denom exists":
			return "C12"
		}
		return "C06"
	}
	return "C15"
}

type prediction struct {
	Stateless   Verdict
	StatelessOn int // index of first offending message
	SigOK       bool
	SigWhy      string
	Tampered    bool
	FeeOK       bool
	Handler     string // ok | fail | unjudged
	HandlerWhy  string
	FailMsg     sdk.Msg
	After       *Model
	Acks        []ackedRecord
	Offsets     []int64 // predicted offset per top-level message (-1 none)
	AltDenom    string
	Mirror      []string // denom ids whose free-form fields are mirrored
	Payer       sdk.AccAddress
	Required    []sdk.AccAddress
	CustomOnly  bool
	HasCustom   bool
}

func (e *Exec) predict(bt *BuiltTx, blk *Block, n *Node) *prediction {
	p := &prediction{Stateless: Valid, SigOK: true, FeeOK: true, Handler: "ok"}
	all, customOnly := flattenMsgs(bt.Msgs)
	p.CustomOnly = customOnly && len(all) > 0
	for _, m := range all {
		if IsCustomMsg(m) {
			p.HasCustom = true
		}
	}
	// stateless
	for i, m := range bt.Msgs {
		v := Unjudged
		if ex, ok := m.(*authz.MsgExec); ok {
			inner, err := ex.GetMessages()
			if err != nil || len(inner) == 0 {
				v = Unjudged
			} else {
				v = addrV(ex.Grantee)
				for _, im := range inner {
					if IsCustomMsg(im) {
						v = and(v, StatelessVerdict(im))
					} else {
						v = and(v, Unjudged)
					}
				}
			}
		} else if IsCustomMsg(m) {
			v = StatelessVerdict(m)
		}
		if v == Invalid && p.Stateless != Invalid {
			p.StatelessOn = i
		}
		p.Stateless = and(p.Stateless, v)
	}
	if len(bt.Msgs) == 0 {
		p.Stateless = Invalid
	}
	if p.Stateless == Invalid {
		return p
	}
	// required signers
	seen := map[string]bool{}
	for _, m := range bt.Msgs {
		var rs []sdk.AccAddress
		var ok bool
		if ex, isEx := m.(*authz.MsgExec); isEx {
			a, aok := addrOK(ex.Grantee)
			rs, ok = []sdk.AccAddress{a}, aok
		} else if IsCustomMsg(m) {
			rs, ok = RequiredSigners(m)
		} else {
			// SDK message: its own signer rule applies (trusted base)
			func() {
				defer func() {
					if recover() != nil {
						ok = false
					}
				}()
				rs, ok = m.GetSigners(), true
			}()
		}
		if !ok {
			p.SigOK, p.SigWhy = false, "signers undetermined"
			p.Stateless = and(p.Stateless, Unjudged)
			continue
		}
		for _, a := range rs {
			if !seen[string(a)] {
				seen[string(a)] = true
				p.Required = append(p.Required, a)
			}
		}
	}
	ctx := n.DeliverCtx()
	if len(p.Required) > 0 {
		p.Payer = p.Required[0]
	}
	if p.SigOK {
		if len(bt.Sigs) != len(p.Required) {
			p.SigOK, p.SigWhy = false, fmt.Sprintf("%d signatures for %d required signers", len(bt.Sigs), len(p.Required))
		}
		for i := 0; p.SigOK && i < len(bt.Sigs); i++ {
			su := bt.Sigs[i]
			acc := e.Env.Accs[su.Acc]
			switch {
			case !bytes.Equal(acc.Addr, p.Required[i]):
				p.SigOK, p.SigWhy = false, fmt.Sprintf("signature %d made by %s, required signer is %s", i, acc.Addr, p.Required[i])
			case su.BodyHash != bt.BodyHash:
				p.SigOK, p.SigWhy, p.Tampered = false, "signature was made over a different message list", true
			case su.ChainID != ChainID:
				p.SigOK, p.SigWhy = false, "signed for another chain id"
			case su.Mode == ModeAux && i == 0:
				p.SigOK, p.SigWhy = false, "fee payer signed in direct-aux mode"
			default:
				ac := n.App.AccountKeeper.GetAccount(ctx, acc.Addr)
				if ac == nil {
					p.SigOK, p.SigWhy = false, "signer account does not exist"
				} else if ac.GetSequence() != su.Seq || ac.GetAccountNumber() != su.AccNum {
					p.SigOK, p.SigWhy = false, fmt.Sprintf("signed with sequence %d/account number %d, chain has %d/%d", su.Seq, su.AccNum, ac.GetSequence(), ac.GetAccountNumber())
				}
			}
		}
	}
	if p.Payer != nil && !bt.Fee.IsZero() {
		bal := n.App.BankKeeper.SpendableCoins(ctx, p.Payer)
		if !bal.IsAllGTE(bt.Fee) {
			p.FeeOK = false
		}
	}
	if len(bt.Granter) > 0 && p.Payer != nil && !bytes.Equal(bt.Granter, p.Payer) {
		// somebody else is named to pay the fee: that takes a fee allowance from that account to the fee payer, and no
		// allowance exists anywhere on the simulated chain - whoever the named account is (a later signer included), and
		// whatever the fee (the allowance is looked up for a zero fee too)
		p.FeeOK = false
	}
	if !p.SigOK || !p.FeeOK {
		return p
	}
	// handler level, on a copy
	m := e.Model.Clone()
	for _, tm := range bt.Msgs {
		off := int64(-1)
		apply := func(msg sdk.Msg) bool {
			if !IsCustomMsg(msg) {
				if p.Handler == "ok" {
					p.Handler, p.HandlerWhy = "unjudged", "non-custom message"
				}
				return true
			}
			res, err := m.Apply(msg, blk.Time)
			if err != nil {
				p.Handler, p.HandlerWhy, p.FailMsg = "fail", err.Error(), msg
				return false
			}
			if res.Unjudged {
				p.Handler, p.HandlerWhy = "unjudged", res.Why
			}
			if res.AltDeleted {
				p.AltDenom = msgField(msg, "id")
			}
			if res.HasOffset {
				off = int64(res.Offset)
				ar := msg.(*aoltypes.MsgAddRecordRequest)
				o, _ := addrOK(ar.OwnerAddress)
				p.Acks = append(p.Acks, ackedRecord{Owner: o.String(), OwnerB: string(o), Topic: ar.TopicName, Offset: res.Offset, Key: ar.Key, Value: ar.Value, Writer: ar.WriterAddress, Ts: blk.Time.UnixNano(), Height: blk.Height})
			}
			if ud := msgField(msg, "update_denom_id"); ud != "" {
				p.Mirror = append(p.Mirror, ud)
			}
			return true
		}
		if ex, ok := tm.(*authz.MsgExec); ok {
			grantee, _ := addrOK(ex.Grantee)
			inner, _ := ex.GetMessages()
			for _, im := range inner {
				rs, ok := RequiredSigners(im)
				if !IsCustomMsg(im) {
					p.Handler, p.HandlerWhy = "unjudged", "non-custom message inside exec"
					continue
				}
				if !ok || len(rs) != 1 {
					p.Handler, p.HandlerWhy, p.FailMsg = "fail", "delegation needs exactly one signer", im
					break
				}
				if !bytes.Equal(rs[0], grantee) {
					switch m.HasGrant(rs[0], grantee, sdk.MsgTypeURL(im), blk.Time) {
					case 0:
						p.Handler, p.HandlerWhy, p.FailMsg = "fail", "no valid delegation from "+rs[0].String(), im
					case -1:
						p.Handler, p.HandlerWhy = "unjudged", "delegation expires exactly now"
					}
					if p.Handler == "fail" {
						break
					}
				}
				if !apply(im) {
					break
				}
			}
		} else {
			if g, ok := tm.(*authz.MsgGrant); ok {
				_ = g // effect applied after delivery if accepted
			}
			if !apply(tm) {
				p.Offsets = append(p.Offsets, off)
				break
			}
		}
		p.Offsets = append(p.Offsets, off)
		if p.Handler == "fail" {
			break
		}
	}
	if p.Handler != "fail" {
		p.After = m
	}
	return p
}

func msgField(m sdk.Msg, f string) string {
	switch t := m.(type) {
	case interface{ GetId() string }:
		if f == "id" {
			return t.GetId()
		}
		if f == "update_denom_id" {
			if sdk.MsgTypeURL(m) == "/panacea.pnft.v2.MsgUpdateDenomRequest" {
				return t.GetId()
			}
		}
	}
	return ""
}

func (e *Exec) feeOf(t *TxSpec) sdk.Coins {
	amt := t.FeeAmt
	if amt == "" {
		amt = "2000"
	}
	den := t.FeeDen
	if den == "" {
		den = FeeDenom
	}
	a, ok := sdk.NewIntFromString(amt)
	if !ok || a.IsNegative() {
		a = sdk.NewInt(2000)
	}
	out := sdk.Coins{}
	if !a.IsZero() {
		out = sdk.Coins{sdk.Coin{Denom: den, Amount: a}}
	}
	if t.Fee2Den != "" && t.Fee2Den != den {
		if b, ok := sdk.NewIntFromString(t.Fee2Amt); ok && b.IsPositive() {
			out = out.Add(sdk.Coin{Denom: t.Fee2Den, Amount: b})
		}
	}
	return out
}

func (e *Exec) deliverOnR0(p *pendingTx, blk *Block, rec *BlockRec) {
	r0 := e.R[0]
	t := p.Spec
	if t == nil {
		return
	}
	bc := e.buildCtx(blk)
	var bt *BuiltTx
	if t.ReplayOf != 0 {
		old := e.Built[t.ReplayOf]
		if old == nil {
			e.Trace.Ev("tx=%d replay_of=%d skipped (original never built)", p.ID, t.ReplayOf)
			return
		}
		c := *old
		bt = &c
	} else {
		var msgs []sdk.Msg
		for i := range t.Msgs {
			msgs = append(msgs, bc.Build(&t.Msgs[i]))
		}
		var signOver []sdk.Msg
		if t.SignOver != nil {
			for i := range t.SignOver {
				signOver = append(signOver, bc.Build(&t.SignOver[i]))
			}
		}
		signers := t.Signers
		if signers == nil {
			basis := msgs
			if signOver != nil {
				basis = signOver
			}
			signers = e.defaultSigners(basis)
		}
		ctx := r0.DeliverCtx()
		var seqs, nums []uint64
		for i, si := range signers {
			acc := e.Env.Accs[si%len(e.Env.Accs)]
			var seq, num uint64
			if a := r0.App.AccountKeeper.GetAccount(ctx, acc.Addr); a != nil {
				seq, num = a.GetSequence(), a.GetAccountNumber()
			}
			if i < len(t.SeqDelta) {
				seq = uint64(int64(seq) + int64(t.SeqDelta[i]))
			}
			seqs = append(seqs, seq)
			nums = append(nums, num)
		}
		chain := ChainID
		if t.BadChain {
			chain = "other-chain-9"
		}
		gas := t.Gas
		if gas == 0 {
			gas = 30_000_000
		}
		var err error
		var granter sdk.AccAddress
		if t.Granter != "" {
			granter, _ = sdk.AccAddressFromBech32(t.Granter)
		}
		var timeoutH uint64
		if t.Timeout != 0 {
			if th := blk.Height + int64(t.Timeout); th >= 1 {
				timeoutH = uint64(th)
			} else {
				timeoutH = 1
			}
		}
		bt, err = e.Env.BuildTx(TxParams{Msgs: msgs, Signers: signers, Modes: t.Modes, Seqs: seqs, AccNums: nums, ChainID: chain, Fee: e.feeOf(t), Gas: gas, SignOver: signOver, Granter: granter, TimeoutHeight: timeoutH})
		if err != nil {
			// the SDK client refuses to build it (e.g. GetSigners panics on a malformed address): send it raw
			bt, err = e.Env.BuildRawTx(msgs, signers, seqs, nums, chain, e.feeOf(t), gas)
			if err != nil {
				e.Trace.Ev("tx=%d unbuildable: %v", p.ID, err)
				e.Stats.Inc("tx.unbuildable")
				return
			}
			e.Stats.Inc("tx.raw_built")
		}
		e.Built[p.ID] = bt
		e.BuiltMsgs[p.ID] = bt.Msgs
	}
	e.checkSignBytes(p.ID, bt)
	for _, m := range bt.Msgs {
		if !IsCustomMsg(m) {
			continue
		}
		if !passesValidateBasic(m) {
			// a signature over a message that every node refuses statelessly authorises nothing: encodings of such
			// messages (unset oneofs rendered as "", ...) are not judged
			continue
		}
		switch v := signBytesFaithful(m); {
		case v == "":
			e.Stats.Inc("signbytes.faithful")
		case strings.HasPrefix(v, "undecodable"):
			e.Stats.Inc("signbytes.undecodable." + sdk.MsgTypeURL(m))
		case strings.HasPrefix(v, "empty-controller"):
			e.viol("C14", "signbytes.empty_controller_dropped", "signbytes-faithful:did-document:controller-present-empty", "%s (message %s)", v, msgJSON(e.Env, m))
		default:
			e.viol("C14", "signbytes.not_faithful", "signbytes-faithful:"+sdk.MsgTypeURL(m), "%s (message %s)", v, msgJSON(e.Env, m))
		}
	}
	e.recomputeSignBytes(e.R[(p.ID)%len(e.R)].Node, p.ID, bt)
	e.clientSideValidate(p.ID, bt)

	pred := e.predict(bt, blk, r0.Node)
	preHashes := CustomDumpHashes(r0.DeliverStores())
	var preBank *bankSnap
	var preSeq uint64
	ctx := r0.DeliverCtx()
	if pred.CustomOnly {
		preBank = e.bankSnapshot(ctx, r0.Node)
	}
	if pred.Payer != nil {
		if a := r0.App.AccountKeeper.GetAccount(ctx, pred.Payer); a != nil {
			preSeq = a.GetSequence()
		}
	}
	var res abci.ResponseDeliverTx
	_, halt := r0.guard("DeliverTx", func() { res = r0.App.DeliverTx(abci.RequestDeliverTx{Tx: bt.Bytes}) })
	if halt != nil {
		e.viol("C17", "panic.delivertx.escaped", "", "DeliverTx panicked outside baseapp's recovery: %s [%s]", halt.Panic, halt.Stack)
		return
	}
	tr := resOf(res)
	blk.Txs = append(blk.Txs, bt.Bytes)
	rec.TxIDs = append(rec.TxIDs, p.ID)
	rec.Results = append(rec.Results, tr)
	e.Stats.Inc("txs")
	accepted := res.Code == 0
	if accepted {
		e.Stats.Inc("tx.accepted")
	} else {
		e.Stats.Inc("tx.rejected")
	}
	desc := describeMsgs(bt.Msgs)
	e.Trace.Ev("tx=%d h=%d %s -> code=%d/%s gas=%d pred[st=%s sig=%v fee=%v hd=%s %s]", p.ID, blk.Height, desc, res.Code, res.Codespace, res.GasUsed,
		pred.Stateless, pred.SigOK, pred.FeeOK, pred.Handler, pred.HandlerWhy)

	if res.Code == panicCode && res.Codespace == "undefined" && !pred.HasCustom {
		// a panic recovered by baseapp while executing SDK messages only (e.g. a legacy parameter-change proposal for a
		// subspace without key table): C17 is about the custom modules; replicas must still agree on the answer
		e.Stats.Inc("probe.sdk_message_panic_recovered")
	}
	if res.Code == panicCode && res.Codespace == "undefined" && pred.HasCustom {
		e.viol("C17", "panic.delivertx", desc, "DeliverTx of %s was answered with a recovered panic: %s", desc, trunc(res.Log, 400))
	}
	if res.Codespace == "sdk" && res.Code == 11 {
		e.Stats.Inc("tx.out_of_gas")
	}

	postHashes := CustomDumpHashes(r0.DeliverStores())
	e.judgeTx(p, bt, pred, accepted, tr, preHashes, postHashes, blk, r0)

	// C15: coins
	if pred.CustomOnly && preBank != nil && !e.stop {
		ctx = r0.DeliverCtx()
		postBank := e.bankSnapshot(ctx, r0.Node)
		e.checkCoins(p.ID, desc, bt, pred, preBank, postBank, preSeq, ctx, r0.Node, accepted)
	}
	// authz bookkeeping (SDK messages; effect follows the implementation's verdict)
	if accepted {
		for _, m := range bt.Msgs {
			switch g := m.(type) {
			case *authz.MsgGrant:
				e.Model.ApplyGrant(g, blk.Time)
			case *authz.MsgRevoke:
				e.Model.ApplyRevoke(g)
			}
		}
	}
}

func (e *Exec) defaultSigners(msgs []sdk.Msg) []int {
	var out []int
	seen := map[int]bool{}
	for _, m := range msgs {
		var rs []sdk.AccAddress
		if ex, ok := m.(*authz.MsgExec); ok {
			if a, ok := addrOK(ex.Grantee); ok {
				rs = []sdk.AccAddress{a}
			}
		} else if IsCustomMsg(m) {
			rs, _ = RequiredSigners(m)
		} else {
			func() {
				defer func() { recover() }()
				rs = m.GetSigners()
			}()
		}
		for _, a := range rs {
			if acc := e.Env.AccByAddr(a); acc != nil && !seen[acc.Idx] {
				seen[acc.Idx] = true
				out = append(out, acc.Idx)
			}
		}
	}
	if len(out) == 0 {
		out = []int{0}
	}
	return out
}

func describeMsgs(msgs []sdk.Msg) string {
	var parts []string
	for _, m := range msgs {
		u := sdk.MsgTypeURL(m)
		if i := strings.LastIndex(u, "."); i >= 0 {
			u = u[i+1:]
		}
		if ex, ok := m.(*authz.MsgExec); ok {
			inner, _ := ex.GetMessages()
			u = "Exec(" + describeMsgs(inner) + ")"
		}
		parts = append(parts, u)
	}
	return strings.Join(parts, "+")
}

// judgeTx compares the prediction with what the implementation did.
func (e *Exec) judgeTx(p *pendingTx, bt *BuiltTx, pred *prediction, accepted bool, tr TxResult, preH, postH map[string]string, blk *Block, r0 *Replica) {
	desc := describeMsgs(bt.Msgs)
	first := sdk.Msg(nil)
	if all, _ := flattenMsgs(bt.Msgs); len(all) > 0 {
		first = all[0]
	}
	ent := fmt.Sprintf("tx%d", p.ID)
	if !accepted {
		if all, _ := flattenMsgs(bt.Msgs); len(all) > 1 {
			if e.touchedByFailed == nil {
				e.touchedByFailed = map[string]bool{}
			}
			for _, m := range all {
				if en := entityOf(m); en != "" {
					e.touchedByFailed[en] = true
				}
			}
		}
	}
	if first != nil && pred.HasCustom {
		k := "judged." + moduleOf(first)
		if accepted {
			e.Stats.Inc(k + ".accepted")
		} else {
			e.Stats.Inc(k + ".rejected")
		}
	}
	if e.isResubmission(p) {
		e.Stats.Inc("probe.did.resubmission_delivered")
	}
	if !accepted {
		// every rejected attempt leaves the custom state exactly as it was
		if !sameHashes(preH, postH) {
			ch := changedStores(preH, postH)
			prop := map[string]string{"aol": "C02", "did": "C03", "pnft": "C06"}[ch[0]]
			if len(bt.Msgs) > 1 {
				prop = "C15"
			}
			e.viol(prop, "rejected_tx_changed_state", ent, "tx %s failed (code %d/%s) but changed store(s) %v", desc, tr.Code, tr.Codespace, ch)
			e.resync(r0.DeliverStores())
			return
		}
	}
	if !pred.HasCustom {
		if accepted && !sameHashes(preH, postH) {
			e.viol("C15", "foreign_tx_changed_custom_state", ent, "tx %s carries no custom message but changed store(s) %v", desc, changedStores(preH, postH))
			e.resync(r0.DeliverStores())
		}
		return
	}
	switch {
	case pred.Stateless == Invalid:
		if accepted {
			e.viol("C16", "stateless.accepted_outside_limits", ent, "tx %s was accepted although message %d violates the documented limits: %s", desc, pred.StatelessOn, msgJSON(e.Env, bt.Msgs[pred.StatelessOn]))
			e.resync(r0.DeliverStores())
		}
		return
	case !pred.SigOK:
		if accepted {
			prop, class := "C15", "auth.wrong_signer_accepted"
			if first != nil {
				prop = authPropOf(first)
			}
			if pred.Tampered {
				prop, class = "C14", "signature.transplant_accepted"
			} else if e.Prop == "C15" && hasNamedFeePayer(bt.Msgs) {
				prop = "C15"
			}
			kind := ""
			if pred.Tampered && len(bt.Sigs) > 0 {
				kind = " [signed list and delivered list: other]"
				if sh := bt.Sigs[0].Shape; sh.Types != bt.Shape.Types && sh.Content == bt.Shape.Content {
					kind = " [signed list and delivered list: sibling types, equal field values]"
				}
			}
			e.viol(prop, class, ent, "tx %s was accepted although %s (modes %v)%s", desc, pred.SigWhy, sigModes(bt), kind)
			e.resync(r0.DeliverStores())
		}
		return
	case !pred.FeeOK:
		if accepted {
			why := "the payer cannot pay"
			if len(bt.Granter) > 0 {
				why = fmt.Sprintf("it names %s as fee granter and no fee allowance exists", sdk.AccAddress(bt.Granter))
			}
			e.viol("C15", "fee.unpayable_accepted", ent, "tx %s accepted although %s (fee %s)", desc, why, bt.Fee)
			e.resync(r0.DeliverStores())
		}
		return
	}
	if tr.Codespace == "sdk" && tr.Code == 30 {
		// the transaction's timeout height had passed (it was set in the past, or the transaction - or a replay of its exact
		// bytes - came late): refused by the SDK's ante chain, not a verdict on the messages
		return
	}
	if tr.Codespace == "sdk" && (tr.Code == 11 || tr.Code == 41) {
		// the harness gave too little gas, or more than the block.max_gas a governance proposal has set: not a verdict
		return
	}
	switch pred.Handler {
	case "fail":
		if accepted {
			prop := rejectPropOf(pred.FailMsg, pred.HandlerWhy)
			if e.isResubmission(p) {
				prop = "C04"
			}
			if e.Prop == "C15" && e.touchedByFailed[entityOf(pred.FailMsg)] {
				// the request is only acceptable if a message of an earlier FAILED transaction had taken effect
				prop = "C15"
			}
			e.viol(prop, "handler.accepted_forbidden."+moduleOf(pred.FailMsg), entityOf(pred.FailMsg), "tx %s was accepted; the statements require refusal (%s): %s", desc, pred.HandlerWhy, msgJSON(e.Env, pred.FailMsg))
			e.resync(r0.DeliverStores())
			// accepted it was, rightly or not: submitting the same DID message again is a resubmission of an accepted message
			for i, m := range bt.Msgs {
				switch m.(type) {
				case *didtypes.MsgCreateDIDRequest, *didtypes.MsgUpdateDIDRequest, *didtypes.MsgDeactivateDIDRequest:
					if p.Spec != nil && p.Spec.ReplayOf == 0 {
						e.didAccepted = append(e.didAccepted, acceptedDidMsg{TxID: p.ID, MsgIdx: i, Height: blk.Height})
					}
				}
			}
		} else if pred.Stateless == Valid && tr.Codespace == "sdk" && tr.Code == 4 && tr.GasUsed == 0 && strings.Contains(tr.Log, "wrong number of signers") && hasNamedFeePayer(bt.Msgs) {
			// refused, as it must be, but for the wrong reason: the transaction carries one correct signature per required
			// signer (fee payer first, then the writer) and never reached the handler because the message lists other signers
			e.viol("C15", "auth.signer_list_differs", entityOf(first), "tx %s, signed by [fee payer, writer], was refused before the handler (code %d/%s: %s): %s", desc, tr.Code, tr.Codespace, trunc(tr.Log, 160), msgJSON(e.Env, first))
		}
		return
	case "unjudged":
		if accepted {
			e.resync(r0.DeliverStores())
			e.Stats.Inc("tx.unjudged_accepted")
		}
		return
	}
	// predicted acceptable at handler level
	if !accepted {
		if pred.Stateless == Unjudged {
			return // the documents leave the stateless verdict open
		}
		if pred.AltDenom != "" {
			return // refusing to delete a non-empty denom is one of the two consistent outcomes
		}
		prop := "C16"
		class := "valid_tx_rejected"
		if first != nil && !(tr.Codespace == "undefined") {
			prop = authPropOf(first)
		}
		if e.Prop == "C15" && hasNamedFeePayer(bt.Msgs) {
			// who signs first decides who pays: a refused, correctly ordered [fee payer, writer] transaction is C15's business
			prop = "C15"
		}
		signerList := tr.Codespace == "sdk" && tr.Code == 4 && tr.GasUsed == 0 // "wrong number of signers": the message's signer list, not its limits
		if signerList && hasNamedFeePayer(bt.Msgs) {
			prop = "C15"
		}
		if isStatelessRejection(tr) && !signerList {
			prop, class = "C16", "stateless.rejected_inside_limits"
		} else if e.Prop == "C15" {
			// the request is only refusable if a message of an earlier FAILED transaction had taken effect on the entity
			all, _ := flattenMsgs(bt.Msgs)
			for _, m := range all {
				if e.touchedByFailed[entityOf(m)] {
					prop = "C15"
				}
			}
		}
		e.viol(prop, class, entityOf(first), "tx %s was rejected (code %d/%s: %s) although every statement allows it: %s", desc, tr.Code, tr.Codespace, trunc(tr.Log, 200), msgJSON(e.Env, first))
		return
	}
	// accepted as predicted: compare the resulting state
	after := pred.After
	ex := ExtractState(r0.DeliverStores())
	if pred.AltDenom != "" {
		delete(after.Denoms, pred.AltDenom)
		delete(after.Tokens, pred.AltDenom)
	}
	for _, id := range pred.Mirror {
		if d, ok := after.Denoms[id]; ok {
			if x, ok := ex.M.Denoms[id]; ok {
				d.Name, d.Symbol, d.Description, d.Uri, d.UriHash, d.Data = x.Name, x.Symbol, x.Description, x.Uri, x.UriHash, x.Data
			}
		}
	}
	want := after.Flatten()
	for _, sec := range []string{"aol/", "did/", "pnft/"} {
		if d := DiffFlat(want, ex.Flat, sec, 4); len(d) > 0 {
			key := strings.SplitN(d[0], " ", 3)[1]
			prop := propOfSection(key)
			if fd := DiffFlatFull(want, ex.Flat, sec, 1); prop == "C03" && len(fd) == 1 && onlySeqDiffers(fd[0]) {
				prop = "C04" // same document, wrong sequence
			} else if prop == "C03" && e.Prop == "C04" && len(fd) == 1 && seqDiffers(fd[0]) {
				prop = "C04" // an accepted DID message after which the stored sequence is not the one the statements require
			}
			if sec == "pnft/" && pred.AltDenom != "" {
				prop = "C12"
			}
			if prop == "C03" && strings.Contains(d[0], "want tomb") {
				prop = "C05" // a deactivation that did not leave the tombstone the statements require
			}
			e.viol(prop, "state.diverges_from_model."+strings.TrimSuffix(sec, "/"), entityOf(first), "after tx %s the %s state differs from the model: %s", desc, sec, strings.Join(d, " ; "))
			e.resync(r0.DeliverStores())
			return
		}
	}
	e.Model = after
	// acknowledgements (C01)
	if len(pred.Acks) > 0 {
		offs := decodeOffsets(tr.Data)
		for i, a := range pred.Acks {
			if i >= len(offs) {
				e.viol("C01", "ack.missing", a.Topic, "tx %s: add-record succeeded but no offset was acknowledged", desc)
			} else if uint64(offs[i]) != a.Offset {
				e.viol("C01", "ack.wrong_offset", a.Topic, "tx %s: acknowledged offset %d, the topic held %d records before the append", desc, offs[i], a.Offset)
			}
		}
		for _, a := range pred.Acks {
			e.ledger = append(e.ledger, a)
			if e.writerRemoved[a.OwnerB+"|"+a.Topic+"|"+a.Writer] {
				e.Stats.Inc("probe.record_after_writer_readded")
			}
		}
		e.Stats.Add("acked_records", int64(len(pred.Acks)))
	}
	for i, m := range bt.Msgs {
		switch t := m.(type) {
		case *aoltypes.MsgDeleteWriterRequest:
			o, _ := addrOK(t.OwnerAddress)
			e.writerRemoved[string(o)+"|"+t.TopicName+"|"+t.WriterAddress] = true
		case *didtypes.MsgCreateDIDRequest, *didtypes.MsgUpdateDIDRequest, *didtypes.MsgDeactivateDIDRequest:
			if p.Spec.ReplayOf == 0 {
				e.didAccepted = append(e.didAccepted, acceptedDidMsg{TxID: p.ID, MsgIdx: i, Height: blk.Height})
			}
			if _, ok := m.(*didtypes.MsgDeactivateDIDRequest); ok {
				e.Stats.Inc("probe.did.deactivated")
			}
		}
	}
}

func hasNamedFeePayer(msgs []sdk.Msg) bool {
	all, _ := flattenMsgs(msgs)
	for _, m := range all {
		if ar, ok := m.(*aoltypes.MsgAddRecordRequest); ok && ar.FeePayerAddress != "" && ar.FeePayerAddress != ar.WriterAddress {
			return true
		}
	}
	return false
}

func onlySeqDiffers(d FlatDiff) bool {
	ws, gs := strings.SplitN(d.Want, ";seq=", 2), strings.SplitN(d.Got, ";seq=", 2)
	return len(ws) == 2 && len(gs) == 2 && ws[0] == gs[0] && ws[1] != gs[1]
}

func seqDiffers(d FlatDiff) bool {
	ws, gs := strings.SplitN(d.Want, ";seq=", 2), strings.SplitN(d.Got, ";seq=", 2)
	return len(ws) == 2 && len(gs) == 2 && ws[1] != gs[1]
}

func (s *Script) stepTx(id int) (*TxSpec, bool) {
	for i := range s.Steps {
		if s.Steps[i].K == "tx" && s.Steps[i].ID == id {
			return s.Steps[i].Tx, true
		}
	}
	return nil, false
}

// isResubmission: the transaction re-submits (via "reuse") a DID message that was accepted before.
func (e *Exec) isResubmission(p *pendingTx) bool {
	if p.Spec == nil {
		return false
	}
	for _, ms := range p.Spec.Msgs {
		if ms.T == "reuse" {
			for _, a := range e.didAccepted {
				if a.TxID == ms.OfTx && a.MsgIdx == ms.OfMsg {
					return true
				}
			}
		}
		for _, in := range ms.Inner {
			if in.T == "reuse" {
				for _, a := range e.didAccepted {
					if a.TxID == in.OfTx && a.MsgIdx == in.OfMsg {
						return true
					}
				}
			}
		}
	}
	return false
}

// resubmitsAcceptedDid: transaction id carries (as a byte-for-byte replay or through "reuse") a DID message that
// the reference replica accepted earlier.
func (e *Exec) resubmitsAcceptedDid(id int) bool {
	spec, ok := e.S.stepTx(id)
	if !ok || spec == nil {
		return false
	}
	if spec.ReplayOf != 0 {
		for _, a := range e.didAccepted {
			if a.TxID == spec.ReplayOf {
				return true
			}
		}
	}
	return e.isResubmission(&pendingTx{ID: id, Spec: spec})
}

func isStatelessRejection(tr TxResult) bool {
	// a stateless rejection happens before any gas is spent on signature verification or handlers;
	// recognised by the message's own error codespace combined with zero events is unreliable, so
	// use the log prefix the ante ValidateBasic path leaves: none. Fall back to gas: ValidateBasic
	// failures are reported before the gas meter is set up (GasUsed == 0).
	return tr.GasUsed == 0
}

func entityOf(m sdk.Msg) string {
	switch t := m.(type) {
	case nil:
		return ""
	case *aoltypes.MsgCreateTopicRequest:
		return "topic:" + t.OwnerAddress + "/" + t.TopicName
	case *aoltypes.MsgAddWriterRequest:
		return "topic:" + t.OwnerAddress + "/" + t.TopicName
	case *aoltypes.MsgDeleteWriterRequest:
		return "topic:" + t.OwnerAddress + "/" + t.TopicName
	case *aoltypes.MsgAddRecordRequest:
		return "topic:" + t.OwnerAddress + "/" + t.TopicName
	case *didtypes.MsgCreateDIDRequest:
		return "did:" + t.Did
	case *didtypes.MsgUpdateDIDRequest:
		return "did:" + t.Did
	case *didtypes.MsgDeactivateDIDRequest:
		return "did:" + t.Did
	case interface{ GetDenomId() string }:
		return "denom:" + t.GetDenomId()
	case interface{ GetId() string }:
		return "denom:" + t.GetId()
	}
	return ""
}

func sigModes(bt *BuiltTx) []SigMode {
	var out []SigMode
	for _, s := range bt.Sigs {
		out = append(out, s.Mode)
	}
	return out
}

func msgJSON(env *Env, m sdk.Msg) string {
	if m == nil {
		return "<nil>"
	}
	defer func() { recover() }()
	bz, err := env.Cdc.MarshalInterfaceJSON(m)
	if err != nil {
		return fmt.Sprintf("%T(%v)", m, err)
	}
	return trunc(string(bz), 600)
}

// checkCoins: C15 around one custom-only transaction.
func (e *Exec) checkCoins(id int, desc string, bt *BuiltTx, pred *prediction, pre, post *bankSnap, preSeq uint64, ctx sdk.Context, n *Node, accepted bool) {
	ent := fmt.Sprintf("tx%d", id)
	if d := diffSnap(pre.Supply, post.Supply); len(d) > 0 {
		e.viol("C15", "coins.supply_changed", ent, "custom-only tx %s changed the total supply: %v", desc, d)
		return
	}
	d := diffSnap(pre.Bal, post.Bal)
	// the ante handler ran to completion iff the payer's sequence advanced: then exactly the declared fee moves
	antePassed := false
	if pred.Payer != nil {
		if a := n.App.AccountKeeper.GetAccount(ctx, pred.Payer); a != nil && a.GetSequence() != preSeq {
			antePassed = true
		}
	}
	if accepted && !antePassed && pred.Payer != nil {
		// the messages of an accepted transaction were executed, so its ante chain ran to completion - and yet the payer's
		// sequence stands still: the fee deduction and the sequence increment were made somewhere they do not count
		e.viol("C15", "coins.ante_effects_lost", ent, "custom-only tx %s was accepted, but the sequence of its fee payer %s did not advance (declared fee %s)", desc, pred.Payer, bt.Fee)
		return
	}
	if antePassed || accepted {
		fc := n.App.AccountKeeper.GetModuleAddress("fee_collector").String()
		for _, c := range bt.Fee {
			for _, who := range []string{pred.Payer.String(), fc} {
				k := who + "|" + c.Denom
				b, _ := sdk.NewIntFromString(orZero(pre.Bal[k]))
				a, _ := sdk.NewIntFromString(orZero(post.Bal[k]))
				delta := a.Sub(b)
				want := c.Amount
				if who != fc {
					want = c.Amount.Neg()
				}
				if !delta.Equal(want) {
					e.viol("C15", "coins.fee_not_moved", ent, "custom-only tx %s declared the fee %s; balance %s changed by %s instead of %s", desc, bt.Fee, k, delta, want)
					return
				}
			}
		}
	}
	if len(d) == 0 {
		return
	}
	e.Stats.Inc("probe.fee_charged")
	feeCollector := n.App.AccountKeeper.GetModuleAddress("fee_collector").String()
	exp := map[string]bool{}
	okPayer := pred.Payer != nil
	for _, c := range bt.Fee {
		if okPayer {
			exp[pred.Payer.String()+"|"+c.Denom] = true
		}
		exp[feeCollector+"|"+c.Denom] = true
	}
	keys := make([]string, 0, len(d))
	for k := range d {
		keys = append(keys, k)
	}
	sort.Strings(keys)
	for _, k := range keys {
		ch := d[k]
		if !exp[k] {
			e.viol("C15", "coins.unexpected_balance_change", ent, "custom-only tx %s changed balance %s: %s -> %s (expected only payer %v and fee collector to change by the fee %s)", desc, k, orZero(ch[0]), orZero(ch[1]), pred.Payer, bt.Fee)
			return
		}
		den := k[strings.LastIndex(k, "|")+1:]
		b, _ := sdk.NewIntFromString(orZero(ch[0]))
		a, _ := sdk.NewIntFromString(orZero(ch[1]))
		fee := bt.Fee.AmountOf(den)
		isCollector := strings.HasPrefix(k, feeCollector+"|")
		if isCollector && !a.Sub(b).Equal(fee) || !isCollector && !b.Sub(a).Equal(fee) {
			e.viol("C15", "coins.wrong_amount", ent, "custom-only tx %s changed balance %s: %s -> %s, declared fee is %s", desc, k, b, a, bt.Fee)
			return
		}
	}
}

// checkSignBytes: C14 — history-wide injectivity of sign bytes.
func (e *Exec) checkSignBytes(id int, bt *BuiltTx) {
	note := func(k string, mode SigMode, body string, shape bodyShape, sb []byte, what string) {
		if prev, ok := e.signMap[k]; ok && prev.Body != body {
			// which kind of collision: messages of sibling types that carry the same field values (explained by the
			// type-less amino encoding, F10), or anything else (same types with different values, different content)
			kind := "other"
			if prev.Shape.Types != shape.Types && prev.Shape.Content == shape.Content {
				kind = "sibling-types"
			} else if prev.Shape.Types == shape.Types {
				kind = "same-types"
			}
			e.viol("C14", "signbytes.collision", "signbytes:"+string(mode)+":"+kind, "two different message lists share %s sign bytes (tx %d%s; types %s vs %s): bytes=%s", mode, id, what, prev.Shape.Types, shape.Types, trunc(string(sb), 300))
		}
		e.signMap[k] = signedBody{Body: body, Shape: shape}
	}
	for i, sb := range bt.SignBytes {
		if i >= len(bt.Sigs) {
			break
		}
		note(string(bt.Sigs[i].Mode)+"|"+hex.EncodeToString(sha256sum(sb)), bt.Sigs[i].Mode, bt.Sigs[i].BodyHash, bt.Sigs[i].Shape, sb, "")
	}
	for i, sb := range bt.AltSignBytes {
		if i >= len(bt.Sigs) || sb == nil {
			continue
		}
		note(string(bt.Sigs[i].Mode)+"|"+hex.EncodeToString(sha256sum(sb)), bt.Sigs[i].Mode, bt.BodyHash, bt.Shape, sb, ", tampered variant")
	}
}

type signedBody struct {
	Body  string
	Shape bodyShape
}

// recomputeSignBytes: "the sign bytes of a given message are identical on every node and every time they are computed":
// decode the delivered bytes with the TxConfig of node n and compute the sign bytes again.
func (e *Exec) recomputeSignBytes(n *Node, id int, bt *BuiltTx) {
	if len(bt.AltSignBytes) > 0 || len(bt.SignBytes) == 0 {
		return // tampered: signatures were made over another body
	}
	defer func() { recover() }()
	cfg := n.App.TxConfig()
	tx, err := cfg.TxDecoder()(bt.Bytes)
	if err != nil {
		return
	}
	stx, ok := tx.(authsigning.Tx)
	if !ok {
		return
	}
	for i, su := range bt.Sigs {
		if i >= len(bt.SignBytes) || su.Mode == ModeAux {
			continue
		}
		acc := e.Env.Accs[su.Acc]
		sd := authsigning.SignerData{ChainID: su.ChainID, AccountNumber: su.AccNum, Sequence: su.Seq, PubKey: acc.Priv.PubKey(), Address: acc.Addr.String()}
		again, err := cfg.SignModeHandler().GetSignBytes(su.Mode.sdk(), sd, stx)
		if err != nil {
			continue
		}
		e.Stats.Inc("signbytes.recomputed")
		if !bytes.Equal(again, bt.SignBytes[i]) {
			e.viol("C14", "signbytes.not_reproducible", fmt.Sprintf("tx%d", id), "sign bytes (%s mode) of tx %d recomputed on replica %d differ from the bytes the client signed", su.Mode, id, n.ID)
			return
		}
	}
	// a node validates the decoded messages (ValidateBasic) BEFORE its ante chain verifies the signatures over them:
	// validation must not change what the messages sign to
	for _, m := range stx.GetMsgs() {
		passesValidateBasic(m)
	}
	for i, su := range bt.Sigs {
		if i >= len(bt.SignBytes) || su.Mode == ModeAux {
			continue
		}
		acc := e.Env.Accs[su.Acc]
		sd := authsigning.SignerData{ChainID: su.ChainID, AccountNumber: su.AccNum, Sequence: su.Seq, PubKey: acc.Priv.PubKey(), Address: acc.Addr.String()}
		again, err := cfg.SignModeHandler().GetSignBytes(su.Mode.sdk(), sd, stx)
		if err != nil {
			continue
		}
		if !bytes.Equal(again, bt.SignBytes[i]) {
			e.viol("C14", "signbytes.changed_by_validation", fmt.Sprintf("tx%d", id), "sign bytes (%s mode) of tx %d differ before and after the messages' own ValidateBasic on replica %d: the node verifies the signature over other bytes than the client signed", su.Mode, id, n.ID)
			return
		}
	}
}

func passesValidateBasic(m sdk.Msg) (ok bool) {
	defer func() {
		if recover() != nil {
			ok = false
		}
	}()
	return m.ValidateBasic() == nil
}

func sha256sum(b []byte) []byte { s := sha256.Sum256(b); return s[:] }

// clientSideValidate: what every SDK client does before broadcasting — Msg.ValidateBasic() — compared with
// the limits predicate (C16), and must never panic (C17); GetSigners after a successful validation too.
func (e *Exec) clientSideValidate(id int, bt *BuiltTx) {
	all, _ := flattenMsgs(bt.Msgs)
	for _, m := range all {
		if !IsCustomMsg(m) {
			continue
		}
		var err error
		var pan interface{}
		func() {
			defer func() { pan = recover() }()
			err = m.ValidateBasic()
		}()
		if pan != nil {
			e.viol("C17", "panic.validatebasic", sdk.MsgTypeURL(m), "ValidateBasic of %s panicked: %v", msgJSON(e.Env, m), pan)
			continue
		}
		e.checkFieldCoverage(m)
		v := StatelessVerdict(m)
		e.Stats.Inc("stateless." + v.String())
		if v == Valid && err != nil {
			e.viol("C16", "stateless.rejected_inside_limits", sdk.MsgTypeURL(m), "ValidateBasic rejects a message inside the documented limits (%v): %s", err, msgJSON(e.Env, m))
		}
		if v == Invalid && err == nil {
			e.viol("C16", "stateless.accepted_outside_limits", sdk.MsgTypeURL(m), "ValidateBasic accepts a message outside the documented limits: %s", msgJSON(e.Env, m))
		}
		if err == nil {
			func() {
				defer func() {
					if r := recover(); r != nil {
						e.viol("C17", "panic.getsigners", sdk.MsgTypeURL(m), "GetSigners panicked after successful validation of %s: %v", msgJSON(e.Env, m), r)
					}
				}()
				_ = m.GetSigners()
			}()
		}
	}
}

// statelessSweep (C16, C17): the boundary table has grown to well over a thousand messages and a run turns only a few
// dozen of them into transactions. The stateless part of the judgement - ValidateBasic against the documented limits,
// no panic in ValidateBasic / GetSigners / GetSignBytes - needs no chain: every run checks a 250-entry slice of the table
// directly (a different slice per seed, so that ten runs cover the table).
func (e *Exec) statelessSweep() {
	g := &Gen{rng: NewPRNG(e.S.Seed ^ 0x5157), env: e.Env, prop: "C16", tier: "quick", specs: map[int]*TxSpec{}, built: map[int][]sdk.Msg{}, plan: NewModel()}
	tbl := g.boundaryTable()
	if len(tbl) == 0 {
		return
	}
	bc := &BuildCtx{Env: e.Env, BlockTime: time.Unix(1700000000, 0), DidSeq: func(string) (uint64, bool) { return 0, true }, Built: func(int, int) sdk.Msg { return nil }}
	off := int(e.S.Seed%uint64(len(tbl)/250+1)) * 250
	for i := 0; i < 250; i++ {
		spec := tbl[(off+i)%len(tbl)]
		var m sdk.Msg
		func() {
			defer func() { recover() }()
			m = bc.Build(&spec)
		}()
		if m == nil {
			continue
		}
		e.clientSideValidate(-1, &BuiltTx{Msgs: []sdk.Msg{m}})
		if lm, ok := m.(interface{ GetSignBytes() []byte }); ok && passesValidateBasic(m) {
			func() {
				defer func() {
					if r := recover(); r != nil {
						e.viol("C17", "panic.getsignbytes", sdk.MsgTypeURL(m), "GetSignBytes panicked after successful validation of %s: %v", msgJSON(e.Env, m), r)
					}
				}()
				_ = lm.GetSignBytes()
			}()
		}
		e.Stats.Inc("probe.stateless_sweep")
		if e.stop {
			return
		}
	}
}

// hostileQuery: C17 — no query request makes a handler panic (checked on every live replica).
func (e *Exec) hostileQuery(q *HQuery) {
	if q == nil || len(e.Blocks) < 1 {
		return
	}
	data, _ := hex.DecodeString(q.DataHex)
	for _, r := range e.R {
		if r.Dead || !r.Up || r.Applied < e.H0+1 {
			continue
		}
		h := int64(0)
		if q.Height < 0 && !r.PrunedEver && !r.Boot {
			h = r.Applied + q.Height
			if h < e.H0+1 {
				h = 0
			}
		}
		res := r.QueryRaw(q.Path, data, h)
		e.Stats.Inc("q.hostile")
		e.Trace.Ev("hquery replica=%d path=%s height=%d -> code=%d/%s", r.ID, q.Path, h, res.Code, res.Codespace)
		if res.IsPanic() {
			e.viol("C17", "panic.query", q.Path, "replica %d: query %s with request %s (height %d) was answered with a panic: %s %s", r.ID, q.Path, trunc(q.DataHex, 200), h, res.Brief(), res.PanicMsg)
			return
		}
	}
}

// simulateOnly: a transaction is simulated on one replica and never broadcast. Whatever it did must be gone.
func (e *Exec) simulateOnly(st *Step) {
	if st.Tx == nil || len(e.Blocks) < 1 || st.Replica < 0 || st.Replica >= len(e.R) {
		return
	}
	r := e.R[st.Replica]
	if r.Dead || !r.Up || r.Applied < e.H0+1 || r.inBlock {
		return
	}
	blk := &Block{Height: r.Applied + 1, Time: e.Now}
	bc := e.buildCtx(blk)
	var msgs []sdk.Msg
	ok := true
	func() {
		defer func() {
			if recover() != nil {
				ok = false
			}
		}()
		for i := range st.Tx.Msgs {
			msgs = append(msgs, bc.Build(&st.Tx.Msgs[i]))
		}
	}()
	if !ok || len(msgs) == 0 {
		return
	}
	signers := st.Tx.Signers
	if signers == nil {
		signers = e.defaultSigners(msgs)
	}
	ctx := r.App.NewContext(true, e.Env.Header(e.at(r.Applied).B))
	var seqs, nums []uint64
	for _, si := range signers {
		acc := e.Env.Accs[si%len(e.Env.Accs)]
		var seq, num uint64
		if a := r.App.AccountKeeper.GetAccount(ctx, acc.Addr); a != nil {
			seq, num = a.GetSequence(), a.GetAccountNumber()
		}
		seqs = append(seqs, seq)
		nums = append(nums, num)
	}
	bt, err := e.Env.BuildTx(TxParams{Msgs: msgs, Signers: signers, Modes: st.Tx.Modes, Seqs: seqs, AccNums: nums, ChainID: ChainID, Fee: e.feeOf(st.Tx), Gas: 30_000_000})
	if err != nil {
		return
	}
	var serr error
	_, halt := r.guard("Simulate", func() { _, _, serr = r.App.Simulate(bt.Bytes) })
	if halt != nil {
		e.viol("C17", "panic.simulate.escaped", "", "Simulate panicked outside baseapp's recovery: %s [%s]", halt.Panic, halt.Stack)
		return
	}
	e.Stats.Inc("sched.simulate_unbroadcast")
	e.Trace.Ev("simulate-only tx=%d on replica %d (%s) err=%v", st.ID, r.ID, describeMsgs(msgs), serr != nil)
}
