package main

// Reference model of the four custom modules. Written from the property statements and the
// specifications (.gitbook/specifications/aol.md, docs/did.md, .gitbook/specifications/pnft.md), NOT
// from the keeper code. It uses the generated protobuf structs only as data carriers.

import (
	"bytes"
	"encoding/hex"
	"fmt"
	"regexp"
	"sort"
	"strings"
	"time"
	"unicode"

	"github.com/btcsuite/btcutil/base58"
	tmsecp "github.com/cometbft/cometbft/crypto/secp256k1"
	sdk "github.com/cosmos/cosmos-sdk/types"
	"github.com/cosmos/cosmos-sdk/x/authz"
	aoltypes "github.com/medibloc/panacea-core/v2/x/aol/types"
	didtypes "github.com/medibloc/panacea-core/v2/x/did/types"
	pnfttypes "github.com/medibloc/panacea-core/v2/x/pnft/types"
)

// ---------------------------------------------------------------------------------------------
// state

type TopicM struct {
	Desc string
}
type WriterM struct {
	Moniker, Desc string
	Ts            int64
}
type RecordM struct {
	Key, Value []byte
	Ts         int64
	Writer     string // address string exactly as submitted
}
type AolTopicState struct {
	T       TopicM
	Writers map[string]WriterM // key: writer address bytes (as string)
	Records []RecordM
}

type DidEntry struct {
	Tomb bool
	Doc  *didtypes.DIDDocument
	Seq  uint64
}

type DenomM struct {
	Id, Name, Symbol, Description, Uri, UriHash, Data string
	Owner                                             string // bech32 as stored
}
type TokenM struct {
	DenomId, Id, Name, Description, Uri, UriHash, Data, Creator string
	CreatedAt                                                   time.Time
	Owner                                                       string // canonical bech32
}

type Model struct {
	// AOL: owner address bytes (string) -> topic name -> state
	Aol map[string]map[string]*AolTopicState
	// owners that exist in the owner table (an owner entry appears with its first topic and never disappears)
	AolOwners map[string]bool
	Did       map[string]*DidEntry
	Denoms    map[string]*DenomM
	Tokens    map[string]map[string]*TokenM // denom -> token id -> token
	Grants    map[string]*time.Time         // granter|grantee|url -> expiration (nil = none)
}

func NewModel() *Model {
	return &Model{
		Aol: map[string]map[string]*AolTopicState{}, AolOwners: map[string]bool{},
		Did: map[string]*DidEntry{}, Denoms: map[string]*DenomM{}, Tokens: map[string]map[string]*TokenM{},
		Grants: map[string]*time.Time{},
	}
}

func (m *Model) Clone() *Model {
	n := NewModel()
	for o, ts := range m.Aol {
		n.Aol[o] = map[string]*AolTopicState{}
		for name, t := range ts {
			c := &AolTopicState{T: t.T, Writers: map[string]WriterM{}, Records: append([]RecordM(nil), t.Records...)}
			for w, wm := range t.Writers {
				c.Writers[w] = wm
			}
			n.Aol[o][name] = c
		}
	}
	for o := range m.AolOwners {
		n.AolOwners[o] = true
	}
	for d, e := range m.Did {
		c := *e
		n.Did[d] = &c // documents are treated as immutable values
	}
	for id, d := range m.Denoms {
		c := *d
		n.Denoms[id] = &c
	}
	for d, ts := range m.Tokens {
		n.Tokens[d] = map[string]*TokenM{}
		for id, t := range ts {
			c := *t
			n.Tokens[d][id] = &c
		}
	}
	for k, v := range m.Grants {
		n.Grants[k] = v
	}
	return n
}

// Flatten gives a canonical key->value rendering of the custom-module state for comparison and hashing.
// Section prefixes: "aol/", "did/", "pnft/". Grants are not part of it (SDK state).
func (m *Model) Flatten() map[string]string {
	out := map[string]string{}
	for o := range m.AolOwners {
		n := 0
		if ts, ok := m.Aol[o]; ok {
			n = len(ts)
		}
		out["aol/owner/"+hex.EncodeToString([]byte(o))] = fmt.Sprintf("topics=%d", n)
	}
	for o, ts := range m.Aol {
		oh := hex.EncodeToString([]byte(o))
		for name, t := range ts {
			out["aol/topic/"+oh+"/"+hex.EncodeToString([]byte(name))] = fmt.Sprintf("desc=%x;nrec=%d;nwri=%d", t.T.Desc, len(t.Records), len(t.Writers))
			for w, wm := range t.Writers {
				out["aol/writer/"+oh+"/"+hex.EncodeToString([]byte(name))+"/"+hex.EncodeToString([]byte(w))] = fmt.Sprintf("mon=%x;desc=%x;ts=%d", wm.Moniker, wm.Desc, wm.Ts)
			}
			for i, r := range t.Records {
				out[fmt.Sprintf("aol/record/%s/%s/%016x", oh, hex.EncodeToString([]byte(name)), i)] = fmt.Sprintf("k=%x;v=%x;ts=%d;w=%s", r.Key, r.Value, r.Ts, r.Writer)
			}
		}
	}
	for d, e := range m.Did {
		k := "did/" + hex.EncodeToString([]byte(d))
		if e.Tomb {
			out[k] = fmt.Sprintf("tomb;seq=%d", e.Seq)
		} else {
			bz, err := e.Doc.Marshal()
			if err != nil {
				bz = []byte("marshal-error:" + err.Error())
			}
			out[k] = fmt.Sprintf("doc=%x;seq=%d", bz, e.Seq)
		}
	}
	for id, d := range m.Denoms {
		out["pnft/denom/"+hex.EncodeToString([]byte(id))] = fmt.Sprintf("name=%x;sym=%x;desc=%x;uri=%x;hash=%x;data=%x;owner=%s", d.Name, d.Symbol, d.Description, d.Uri, d.UriHash, d.Data, d.Owner)
	}
	for dn, ts := range m.Tokens {
		for id, t := range ts {
			out["pnft/token/"+hex.EncodeToString([]byte(dn))+"/"+hex.EncodeToString([]byte(id))] = fmt.Sprintf("name=%x;desc=%x;uri=%x;hash=%x;data=%x;creator=%s;at=%d;owner=%s", t.Name, t.Description, t.Uri, t.UriHash, t.Data, t.Creator, t.CreatedAt.UnixNano(), t.Owner)
		}
	}
	return out
}

// FlatDiff is one difference between two flattened states, values untruncated.
type FlatDiff struct{ Key, Want, Got string }

// DiffFlatFull returns up to max differences (sorted, deterministic) with full values.
func DiffFlatFull(want, got map[string]string, section string, max int) []FlatDiff {
	keys := map[string]bool{}
	for k := range want {
		if strings.HasPrefix(k, section) {
			keys[k] = true
		}
	}
	for k := range got {
		if strings.HasPrefix(k, section) {
			keys[k] = true
		}
	}
	ks := make([]string, 0, len(keys))
	for k := range keys {
		ks = append(ks, k)
	}
	sort.Strings(ks)
	var out []FlatDiff
	for _, k := range ks {
		if w, g := want[k], got[k]; w != g {
			out = append(out, FlatDiff{k, w, g})
			if len(out) >= max {
				break
			}
		}
	}
	return out
}

// DiffFlat returns up to max differences between two flattened states (sorted, deterministic).
func DiffFlat(want, got map[string]string, section string, max int) []string {
	keys := map[string]bool{}
	for k := range want {
		if strings.HasPrefix(k, section) {
			keys[k] = true
		}
	}
	for k := range got {
		if strings.HasPrefix(k, section) {
			keys[k] = true
		}
	}
	ks := make([]string, 0, len(keys))
	for k := range keys {
		ks = append(ks, k)
	}
	sort.Strings(ks)
	var out []string
	for _, k := range ks {
		w, wok := want[k]
		g, gok := got[k]
		if wok && gok && w == g {
			continue
		}
		switch {
		case !wok:
			out = append(out, "unexpected "+k+" = "+trunc(g, 160))
		case !gok:
			out = append(out, "missing "+k+" (want "+trunc(w, 160)+")")
		default:
			out = append(out, "differs "+k+": want "+trunc(w, 160)+" got "+trunc(g, 160))
		}
		if len(out) >= max {
			break
		}
	}
	return out
}

func trunc(s string, n int) string {
	if len(s) <= n {
		return s
	}
	return s[:n] + fmt.Sprintf("…(%d bytes)", len(s))
}

// ---------------------------------------------------------------------------------------------
// stateless limits (C16) — written from the published limits in the property/spec text

type Verdict int

const (
	Invalid  Verdict = iota // the documents say: must be rejected by stateless validation
	Valid                   // the documents say: must be accepted by stateless validation
	Unjudged                // the documents leave it open
)

func (v Verdict) String() string { return [...]string{"invalid", "valid", "unjudged"}[v] }

var (
	reTopic   = regexp.MustCompile(`^[A-Za-z0-9._-]{1,70}$`)
	reMoniker = regexp.MustCompile(`^[A-Za-z0-9._-]{0,70}$`)
	reDID     = regexp.MustCompile(`^did:panacea:[123456789ABCDEFGHJKLMNPQRSTUVWXYZabcdefghijkmnopqrstuvwxyz]{32,44}$`)
	reBase58  = regexp.MustCompile(`^[123456789ABCDEFGHJKLMNPQRSTUVWXYZabcdefghijkmnopqrstuvwxyz]+$`)
	reNoSpace = regexp.MustCompile(`^\S+$`)
)

const w3cContext = "https://www.w3.org/ns/did/v1"

var namedKeyTypes = map[string]bool{
	"JsonWebKey2020": true, "EcdsaSecp256k1VerificationKey2019": true, "Secp256k1VerificationKey2018": true,
	"Ed25519VerificationKey2018": true, "Bls12381G1Key2020": true, "Bls12381G2Key2020": true,
	"GpgVerificationKey2020": true, "RsaVerificationKey2018": true, "X25519KeyAgreementKey2019": true,
	"SchnorrSecp256k1VerificationKey2019": true, "EcdsaSecp256k1RecoveryMethod2020": true,
}

// addrOK: a well-formed account address: bech32 with the chain's account prefix and 1..255 payload bytes.
func addrOK(s string) (sdk.AccAddress, bool) {
	if strings.TrimSpace(s) == "" {
		return nil, false
	}
	a, err := sdk.AccAddressFromBech32(s) // SDK primitive (trusted base): bech32 + prefix + length check
	if err != nil || len(a) == 0 || len(a) > 255 {
		return nil, false
	}
	return a, true
}

func and(vs ...Verdict) Verdict {
	r := Valid
	for _, v := range vs {
		if v == Invalid {
			return Invalid
		}
		if v == Unjudged {
			r = Unjudged
		}
	}
	return r
}
func b2v(b bool) Verdict {
	if b {
		return Valid
	}
	return Invalid
}

func methodIDOK(id, did string) bool { return methodIDVerdict(id, did) != Invalid }

// methodIDVerdict: '<did>#<1-128 non-space>'. ASCII white space (space, \t, \n, \f, \r) is "space" beyond doubt;
// whether \v and Unicode spaces (NBSP, U+0085, U+2003 ...) count is left open by the documents.
func methodIDVerdict(id, did string) Verdict {
	p := did + "#"
	if !strings.HasPrefix(id, p) {
		return Invalid
	}
	suf := id[len(p):]
	if len(suf) < 1 || len(suf) > 128 || strings.ContainsAny(suf, " \t\n\f\r") {
		return Invalid
	}
	for _, r := range suf {
		if unicode.IsSpace(r) {
			return Unjudged
		}
	}
	return Valid
}

func vmOK(vm *didtypes.VerificationMethod, did string) Verdict {
	if vm == nil {
		return Invalid
	}
	mv := methodIDVerdict(vm.Id, did)
	if mv == Invalid || vm.Type == "" || !reBase58.MatchString(vm.PublicKeyBase58) {
		return Invalid
	}
	if !namedKeyTypes[vm.Type] {
		return Unjudged // unknown key-type strings: the documents leave it open
	}
	return mv
}

func relsOK(doc *didtypes.DIDDocument, rels []didtypes.VerificationRelationship) Verdict {
	r := Valid
	for i := range rels {
		rel := rels[i]
		if vm := rel.GetVerificationMethod(); vm != nil {
			r = and(r, vmOK(vm, doc.Id))
		} else {
			id := rel.GetVerificationMethodId()
			switch methodIDVerdict(id, doc.Id) {
			case Invalid:
				return Invalid
			case Unjudged:
				r = Unjudged
			}
			found := false
			for _, vm := range doc.VerificationMethods {
				if vm != nil && vm.Id == id {
					found = true
				}
			}
			if !found {
				return Invalid // relationships must resolve
			}
		}
	}
	return r
}

// docWellFormed: "the document is well-formed per the method specification".
func docWellFormed(doc *didtypes.DIDDocument) Verdict {
	if doc == nil || doc.Id == "" {
		return Invalid // an absent or empty document is not a DID document
	}
	if !reDID.MatchString(doc.Id) {
		return Invalid
	}
	if len(doc.VerificationMethods) == 0 || len(doc.Authentications) == 0 {
		return Invalid
	}
	r := Valid
	if doc.Contexts == nil {
		r = Unjudged // absent @context: left open
	} else {
		cs := []string(*doc.Contexts)
		if len(cs) == 0 || cs[0] != w3cContext {
			return Invalid
		}
		seen := map[string]bool{}
		for _, c := range cs {
			if c == "" || seen[c] {
				return Invalid
			}
			seen[c] = true
		}
	}
	if doc.Controller != nil {
		cs := []string(*doc.Controller)
		allEmpty := true
		for _, c := range cs {
			if c != "" {
				allEmpty = false
			}
		}
		if !allEmpty {
			for _, c := range cs {
				if !reDID.MatchString(c) {
					return Invalid
				}
			}
		} else if len(cs) > 0 {
			r = Unjudged
		}
	}
	for _, vm := range doc.VerificationMethods {
		r = and(r, vmOK(vm, doc.Id))
		if r == Invalid {
			return Invalid
		}
	}
	r = and(r, relsOK(doc, doc.Authentications), relsOK(doc, doc.AssertionMethods), relsOK(doc, doc.KeyAgreements),
		relsOK(doc, doc.CapabilityInvocations), relsOK(doc, doc.CapabilityDelegations))
	if r == Invalid {
		return Invalid
	}
	for _, s := range doc.Services {
		if s == nil || s.Id == "" || s.Type == "" || s.ServiceEndpoint == "" {
			return Invalid
		}
	}
	return r
}

// docAbout: a well-formed document about another identifier must never be stored under did (C11 decides
// that at handler level); whether stateless validation already refuses it is left open by the documents.
func docAbout(doc *didtypes.DIDDocument, did string) Verdict {
	if doc != nil && doc.Id != "" && doc.Id != did {
		return Unjudged
	}
	return Valid
}

func hasNUL(s string) bool { return strings.IndexByte(s, 0) >= 0 }

// pnftID: required identifiers must be present; identifiers containing NUL are left open by the
// documents (C12 decides what happens with them).
func pnftID(s string) Verdict {
	if s == "" {
		return Invalid
	}
	if hasNUL(s) {
		return Unjudged
	}
	return Valid
}

func addrV(s string) Verdict { _, ok := addrOK(s); return b2v(ok) }

// pnftActor: actor addresses must be well-formed; non-canonical (upper-case) bech32 spellings are left open.
func pnftActor(s string) Verdict {
	a, ok := addrOK(s)
	if !ok {
		return Invalid
	}
	if a.String() != s {
		return Unjudged
	}
	return Valid
}

// StatelessVerdict is the limits predicate of C16 for one message.
func StatelessVerdict(msg sdk.Msg) Verdict {
	switch t := msg.(type) {
	case *aoltypes.MsgCreateTopicRequest:
		return and(b2v(reTopic.MatchString(t.TopicName)), b2v(len(t.Description) <= 5000), addrV(t.OwnerAddress))
	case *aoltypes.MsgAddWriterRequest:
		return and(b2v(reTopic.MatchString(t.TopicName)), b2v(reMoniker.MatchString(t.Moniker)), b2v(len(t.Description) <= 5000),
			addrV(t.WriterAddress), addrV(t.OwnerAddress))
	case *aoltypes.MsgDeleteWriterRequest:
		return and(b2v(reTopic.MatchString(t.TopicName)), addrV(t.WriterAddress), addrV(t.OwnerAddress))
	case *aoltypes.MsgAddRecordRequest:
		fp := Valid
		if t.FeePayerAddress != "" {
			fp = addrV(t.FeePayerAddress)
		}
		return and(b2v(reTopic.MatchString(t.TopicName)), b2v(len(t.Key) <= 70), b2v(len(t.Value) <= 5000),
			addrV(t.WriterAddress), addrV(t.OwnerAddress), fp)
	case *didtypes.MsgCreateDIDRequest:
		return and(b2v(reDID.MatchString(t.Did)), b2v(len(t.Signature) > 0), docWellFormed(t.Document), addrV(t.FromAddress), docAbout(t.Document, t.Did))
	case *didtypes.MsgUpdateDIDRequest:
		return and(b2v(reDID.MatchString(t.Did)), b2v(len(t.Signature) > 0), docWellFormed(t.Document), addrV(t.FromAddress), docAbout(t.Document, t.Did))
	case *didtypes.MsgDeactivateDIDRequest:
		return and(b2v(reDID.MatchString(t.Did)), b2v(len(t.Signature) > 0), addrV(t.FromAddress))
	case *pnfttypes.MsgCreateDenomRequest:
		return and(pnftID(t.Id), b2v(t.Name != ""), b2v(t.Symbol != ""), pnftActor(t.Creator))
	case *pnfttypes.MsgUpdateDenomRequest:
		return and(pnftID(t.Id), pnftActor(t.Updater))
	case *pnfttypes.MsgDeleteDenomRequest:
		return and(pnftID(t.Id), pnftActor(t.Remover))
	case *pnfttypes.MsgTransferDenomRequest:
		return and(pnftID(t.Id), pnftActor(t.Sender), pnftActor(t.Receiver))
	case *pnfttypes.MsgMintPNFTRequest:
		return and(pnftID(t.DenomId), pnftID(t.Id), b2v(t.Name != ""), pnftActor(t.Creator))
	case *pnfttypes.MsgTransferPNFTRequest:
		return and(pnftID(t.DenomId), pnftID(t.Id), pnftActor(t.Sender), pnftActor(t.Receiver))
	case *pnfttypes.MsgBurnPNFTRequest:
		return and(pnftID(t.DenomId), pnftID(t.Id), pnftActor(t.Burner))
	}
	return Unjudged
}

func IsCustomMsg(msg sdk.Msg) bool {
	switch msg.(type) {
	case *aoltypes.MsgCreateTopicRequest, *aoltypes.MsgAddWriterRequest, *aoltypes.MsgDeleteWriterRequest, *aoltypes.MsgAddRecordRequest,
		*didtypes.MsgCreateDIDRequest, *didtypes.MsgUpdateDIDRequest, *didtypes.MsgDeactivateDIDRequest,
		*pnfttypes.MsgCreateDenomRequest, *pnfttypes.MsgUpdateDenomRequest, *pnfttypes.MsgDeleteDenomRequest, *pnfttypes.MsgTransferDenomRequest,
		*pnfttypes.MsgMintPNFTRequest, *pnfttypes.MsgTransferPNFTRequest, *pnfttypes.MsgBurnPNFTRequest:
		return true
	}
	return false
}

// RequiredSigners: who must have signed a transaction carrying msg, in order (C02/C06/C15 statements).
// Only meaningful for messages whose stateless verdict is not Invalid.
func RequiredSigners(msg sdk.Msg) ([]sdk.AccAddress, bool) {
	one := func(s string) ([]sdk.AccAddress, bool) {
		a, ok := addrOK(s)
		if !ok {
			return nil, false
		}
		return []sdk.AccAddress{a}, true
	}
	switch t := msg.(type) {
	case *aoltypes.MsgCreateTopicRequest:
		return one(t.OwnerAddress)
	case *aoltypes.MsgAddWriterRequest:
		return one(t.OwnerAddress)
	case *aoltypes.MsgDeleteWriterRequest:
		return one(t.OwnerAddress)
	case *aoltypes.MsgAddRecordRequest:
		w, ok := addrOK(t.WriterAddress)
		if !ok {
			return nil, false
		}
		if t.FeePayerAddress != "" {
			f, ok := addrOK(t.FeePayerAddress)
			if !ok {
				return nil, false
			}
			return []sdk.AccAddress{f, w}, true // the named fee payer comes first: it pays
		}
		return []sdk.AccAddress{w}, true
	case *didtypes.MsgCreateDIDRequest:
		return one(t.FromAddress)
	case *didtypes.MsgUpdateDIDRequest:
		return one(t.FromAddress)
	case *didtypes.MsgDeactivateDIDRequest:
		return one(t.FromAddress)
	case *pnfttypes.MsgCreateDenomRequest:
		return one(t.Creator)
	case *pnfttypes.MsgUpdateDenomRequest:
		return one(t.Updater)
	case *pnfttypes.MsgDeleteDenomRequest:
		return one(t.Remover)
	case *pnfttypes.MsgTransferDenomRequest:
		return one(t.Sender)
	case *pnfttypes.MsgMintPNFTRequest:
		return one(t.Creator)
	case *pnfttypes.MsgTransferPNFTRequest:
		return one(t.Sender)
	case *pnfttypes.MsgBurnPNFTRequest:
		return one(t.Burner)
	}
	return nil, false
}

// ---------------------------------------------------------------------------------------------
// DID proofs

// DidSignBytes: the payload a DID proof signs: protobuf(DataWithSeq{data: protobuf(content), sequence}).
func DidSignBytes(content *didtypes.DIDDocument, seq uint64) []byte {
	d, err := content.Marshal()
	if err != nil {
		panic(err)
	}
	dws := didtypes.DataWithSeq{Data: d, Sequence: seq}
	bz, err := dws.Marshal()
	if err != nil {
		panic(err)
	}
	return bz
}

// proofOK: method id listed under `authentication` of keyDoc, resolves, has a secp256k1 type, and sig verifies
// over (content, seq). ambiguous=true when the document lists the id more than once with different keys.
func proofOK(keyDoc *didtypes.DIDDocument, methodID string, content *didtypes.DIDDocument, seq uint64, sig []byte) (ok bool, ambiguous bool) {
	if keyDoc == nil {
		return false, false
	}
	var cands []*didtypes.VerificationMethod
	for i := range keyDoc.Authentications {
		rel := keyDoc.Authentications[i]
		if vm := rel.GetVerificationMethod(); vm != nil {
			if vm.Id == methodID {
				cands = append(cands, vm)
			}
		} else if rel.GetVerificationMethodId() == methodID {
			for _, vm := range keyDoc.VerificationMethods {
				if vm != nil && vm.Id == methodID {
					cands = append(cands, vm)
				}
			}
		}
	}
	if len(cands) == 0 {
		return false, false
	}
	results := map[bool]bool{}
	for _, vm := range cands {
		results[vmVerifies(vm, content, seq, sig)] = true
	}
	if len(results) > 1 {
		return false, true
	}
	return results[true], false
}

func vmVerifies(vm *didtypes.VerificationMethod, content *didtypes.DIDDocument, seq uint64, sig []byte) bool {
	if vm.Type != "EcdsaSecp256k1VerificationKey2019" && vm.Type != "Secp256k1VerificationKey2018" {
		return false
	}
	raw := base58.Decode(vm.PublicKeyBase58)
	if len(raw) != tmsecp.PubKeySize {
		return false
	}
	pk := tmsecp.PubKey(raw)
	return pk.VerifySignature(DidSignBytes(content, seq), sig)
}

// ---------------------------------------------------------------------------------------------
// transitions

type Reject struct{ Why string }

func (r *Reject) Error() string { return r.Why }
func rej(f string, a ...interface{}) error { return &Reject{fmt.Sprintf(f, a...)} }

// ApplyResult carries what the model predicts beyond accept/reject.
type ApplyResult struct {
	Unjudged   bool   // the statements do not determine the outcome
	Why        string // for Unjudged
	Offset     uint64 // AddRecord: acknowledged offset
	HasOffset  bool
	AltDeleted bool // DeleteDenom on a non-empty denom: either refused or removed together with its tokens
}

// Apply performs the handler-level transition of one custom message at block time bt.
// It returns (*Reject) when the statements require the message to be refused.
func (m *Model) Apply(msg sdk.Msg, bt time.Time) (ApplyResult, error) {
	var res ApplyResult
	switch t := msg.(type) {
	case *aoltypes.MsgCreateTopicRequest:
		o, _ := addrOK(t.OwnerAddress)
		ok := string(o)
		if _, ex := m.Aol[ok][t.TopicName]; ex {
			return res, rej("topic exists")
		}
		if m.Aol[ok] == nil {
			m.Aol[ok] = map[string]*AolTopicState{}
		}
		m.AolOwners[ok] = true
		m.Aol[ok][t.TopicName] = &AolTopicState{T: TopicM{Desc: t.Description}, Writers: map[string]WriterM{}}
	case *aoltypes.MsgAddWriterRequest:
		o, _ := addrOK(t.OwnerAddress)
		w, _ := addrOK(t.WriterAddress)
		ts := m.Aol[string(o)][t.TopicName]
		if ts == nil {
			return res, rej("topic not found")
		}
		if _, ex := ts.Writers[string(w)]; ex {
			return res, rej("writer exists")
		}
		ts.Writers[string(w)] = WriterM{Moniker: t.Moniker, Desc: t.Description, Ts: bt.UnixNano()}
	case *aoltypes.MsgDeleteWriterRequest:
		o, _ := addrOK(t.OwnerAddress)
		w, _ := addrOK(t.WriterAddress)
		ts := m.Aol[string(o)][t.TopicName]
		if ts == nil {
			return res, rej("topic not found")
		}
		if _, ex := ts.Writers[string(w)]; !ex {
			return res, rej("writer not found")
		}
		delete(ts.Writers, string(w))
	case *aoltypes.MsgAddRecordRequest:
		o, _ := addrOK(t.OwnerAddress)
		w, _ := addrOK(t.WriterAddress)
		ts := m.Aol[string(o)][t.TopicName]
		if ts == nil {
			return res, rej("topic not found")
		}
		if _, ex := ts.Writers[string(w)]; !ex {
			return res, rej("writer not authorised")
		}
		res.Offset, res.HasOffset = uint64(len(ts.Records)), true
		ts.Records = append(ts.Records, RecordM{Key: append([]byte(nil), t.Key...), Value: append([]byte(nil), t.Value...), Ts: bt.UnixNano(), Writer: t.WriterAddress})

	case *didtypes.MsgCreateDIDRequest:
		if e := m.Did[t.Did]; e != nil {
			if e.Tomb {
				return res, rej("did deactivated")
			}
			return res, rej("did exists")
		}
		if t.Document == nil || t.Document.Id != t.Did {
			return res, rej("document id differs from did") // C11
		}
		ok, amb := proofOK(t.Document, t.VerificationMethodId, t.Document, 0, t.Signature)
		if amb {
			res.Unjudged, res.Why = true, "duplicate method ids"
			return res, nil
		}
		if !ok {
			return res, rej("proof invalid")
		}
		m.Did[t.Did] = &DidEntry{Doc: cloneDoc(t.Document), Seq: 0}
	case *didtypes.MsgUpdateDIDRequest:
		e := m.Did[t.Did]
		if e == nil {
			return res, rej("did not found")
		}
		if e.Tomb {
			return res, rej("did deactivated")
		}
		if t.Document == nil || t.Document.Id != t.Did {
			return res, rej("document id differs from did") // C11
		}
		ok, amb := proofOK(e.Doc, t.VerificationMethodId, t.Document, e.Seq, t.Signature)
		if amb {
			res.Unjudged, res.Why = true, "duplicate method ids"
			return res, nil
		}
		if !ok {
			if proofAtOtherSequence(e.Doc, t.VerificationMethodId, t.Document, e.Seq, t.Signature) {
				return res, rej("proof made over another sequence")
			}
			return res, rej("proof invalid")
		}
		m.Did[t.Did] = &DidEntry{Doc: cloneDoc(t.Document), Seq: e.Seq + 1}
	case *didtypes.MsgDeactivateDIDRequest:
		e := m.Did[t.Did]
		if e == nil {
			return res, rej("did not found")
		}
		if e.Tomb {
			return res, rej("did deactivated")
		}
		content := &didtypes.DIDDocument{Id: t.Did}
		ok, amb := proofOK(e.Doc, t.VerificationMethodId, content, e.Seq, t.Signature)
		if amb {
			res.Unjudged, res.Why = true, "duplicate method ids"
			return res, nil
		}
		if !ok {
			if proofAtOtherSequence(e.Doc, t.VerificationMethodId, content, e.Seq, t.Signature) {
				return res, rej("proof made over another sequence")
			}
			if m.proofForOtherIdentifier(e.Doc, t.Did, t.VerificationMethodId, e.Seq, t.Signature) {
				return res, rej("proof made for another identifier")
			}
			return res, rej("proof invalid")
		}
		m.Did[t.Did] = &DidEntry{Tomb: true, Seq: e.Seq + 1}

	case *pnfttypes.MsgCreateDenomRequest:
		if m.Denoms[t.Id] != nil {
			return res, rej("denom exists")
		}
		if len(m.Tokens[t.Id]) > 0 {
			// tokens without a denom cannot exist if the invariant held; keep going conservatively
			res.Unjudged, res.Why = true, "orphan tokens under a re-created denom id"
			return res, nil
		}
		m.Denoms[t.Id] = &DenomM{Id: t.Id, Name: t.Name, Symbol: t.Symbol, Description: t.Description, Uri: t.Uri, UriHash: t.UriHash, Data: t.Data, Owner: t.Creator}
	case *pnfttypes.MsgUpdateDenomRequest:
		d := m.Denoms[t.Id]
		if d == nil {
			return res, rej("denom not found")
		}
		if !sameAddr(d.Owner, t.Updater) {
			return res, rej("not the denom owner")
		}
		if d.Owner != t.Updater {
			// the same account written differently (upper-case bech32): whether spellings are told apart is left open
			res.Unjudged, res.Why = true, "owner and actor are the same address in different spellings"
			return res, nil
		}
		// which fields change is an implementation choice ("empty means keep"): mirrored by the caller
	case *pnfttypes.MsgDeleteDenomRequest:
		d := m.Denoms[t.Id]
		if d == nil {
			return res, rej("denom not found")
		}
		if !sameAddr(d.Owner, t.Remover) {
			return res, rej("not the denom owner")
		}
		if d.Owner != t.Remover {
			// the same account written differently (upper-case bech32): whether spellings are told apart is left open
			res.Unjudged, res.Why = true, "owner and actor are the same address in different spellings"
			return res, nil
		}
		if len(m.Tokens[t.Id]) > 0 {
			res.AltDeleted = true // either refuse, or delete the denom together with its tokens
			return res, nil
		}
		delete(m.Denoms, t.Id)
	case *pnfttypes.MsgTransferDenomRequest:
		d := m.Denoms[t.Id]
		if d == nil {
			return res, rej("denom not found")
		}
		if !sameAddr(d.Owner, t.Sender) {
			return res, rej("not the denom owner")
		}
		if d.Owner != t.Sender {
			// the same account written differently (upper-case bech32): whether spellings are told apart is left open
			res.Unjudged, res.Why = true, "owner and actor are the same address in different spellings"
			return res, nil
		}
		d.Owner = t.Receiver
	case *pnfttypes.MsgMintPNFTRequest:
		d := m.Denoms[t.DenomId]
		if d == nil {
			return res, rej("denom not found")
		}
		if !sameAddr(d.Owner, t.Creator) {
			return res, rej("not the denom owner")
		}
		if d.Owner != t.Creator {
			// the same account written differently (upper-case bech32): whether spellings are told apart is left open
			res.Unjudged, res.Why = true, "owner and actor are the same address in different spellings"
			return res, nil
		}
		if m.Tokens[t.DenomId][t.Id] != nil {
			return res, rej("token exists")
		}
		if m.Tokens[t.DenomId] == nil {
			m.Tokens[t.DenomId] = map[string]*TokenM{}
		}
		m.Tokens[t.DenomId][t.Id] = &TokenM{DenomId: t.DenomId, Id: t.Id, Name: t.Name, Description: t.Description, Uri: t.Uri, UriHash: t.UriHash,
			Data: t.Data, Creator: t.Creator, CreatedAt: bt.UTC(), Owner: canonAddr(t.Creator)}
	case *pnfttypes.MsgTransferPNFTRequest:
		tk := m.Tokens[t.DenomId][t.Id]
		if tk == nil {
			return res, rej("token not found")
		}
		if !sameAddr(tk.Owner, t.Sender) {
			return res, rej("not the token owner")
		}
		tk.Owner = canonAddr(t.Receiver)
	case *pnfttypes.MsgBurnPNFTRequest:
		tk := m.Tokens[t.DenomId][t.Id]
		if tk == nil {
			return res, rej("token not found")
		}
		if !sameAddr(tk.Owner, t.Burner) {
			return res, rej("not the token owner")
		}
		delete(m.Tokens[t.DenomId], t.Id)
		if len(m.Tokens[t.DenomId]) == 0 {
			delete(m.Tokens, t.DenomId)
		}
	default:
		res.Unjudged, res.Why = true, "not a custom message"
	}
	return res, nil
}

// proofForOtherIdentifier: a deactivation carries no document; the identifier inside the signed data is all that ties
// its proof to one DID. True if the signature is a genuine deactivation proof by this key and sequence for ANOTHER
// identifier: a registered DID, a controller named in the document (C11: proofs are bound to one DID).
func (m *Model) proofForOtherIdentifier(keyDoc *didtypes.DIDDocument, did, methodID string, seq uint64, sig []byte) bool {
	cands := map[string]bool{}
	for d := range m.Did {
		cands[d] = true
	}
	if keyDoc != nil {
		if keyDoc.Controller != nil {
			for _, c := range *keyDoc.Controller {
				cands[c] = true
			}
		}
		for _, vm := range keyDoc.VerificationMethods {
			if vm != nil {
				cands[vm.Controller] = true
			}
		}
		for i := range keyDoc.Authentications {
			if vm := keyDoc.Authentications[i].GetVerificationMethod(); vm != nil {
				cands[vm.Controller] = true
			}
		}
	}
	delete(cands, did)
	n := 0
	for _, c := range sortedKeysB(cands) {
		if n++; n > 40 {
			break
		}
		if ok, amb := proofOK(keyDoc, methodID, &didtypes.DIDDocument{Id: c}, seq, sig); ok && !amb {
			return true
		}
	}
	return false
}

func sortedKeysB(m map[string]bool) []string {
	out := make([]string, 0, len(m))
	for k := range m {
		out = append(out, k)
	}
	sort.Strings(out)
	return out
}

// proofAtOtherSequence: the proof is a genuine proof of this content by a current authentication key, only made over a
// sequence near the current one instead of the current one (C04: the sequence the read operation returns is the one
// the next proof must be made over).
func proofAtOtherSequence(keyDoc *didtypes.DIDDocument, methodID string, content *didtypes.DIDDocument, cur uint64, sig []byte) bool {
	for d := int64(-3); d <= 4; d++ {
		s := int64(cur) + d
		if d == 0 || s < 0 {
			continue
		}
		if ok, amb := proofOK(keyDoc, methodID, content, uint64(s), sig); ok && !amb {
			return true
		}
	}
	return false
}

func sameAddr(a, b string) bool {
	x, ok1 := addrOK(a)
	y, ok2 := addrOK(b)
	return ok1 && ok2 && bytes.Equal(x, y)
}
func canonAddr(a string) string {
	x, ok := addrOK(a)
	if !ok {
		return a
	}
	return x.String()
}

func cloneDoc(d *didtypes.DIDDocument) *didtypes.DIDDocument {
	bz, err := d.Marshal()
	if err != nil {
		panic(err)
	}
	var n didtypes.DIDDocument
	if err := n.Unmarshal(bz); err != nil {
		panic(err)
	}
	return &n
}

// ---------------------------------------------------------------------------------------------
// authz (standard delegation mechanism) — generic grants only

func grantKey(granter, grantee sdk.AccAddress, url string) string {
	return hex.EncodeToString(granter) + "|" + hex.EncodeToString(grantee) + "|" + url
}

func (m *Model) ApplyGrant(g *authz.MsgGrant, bt time.Time) {
	granter, ok1 := addrOK(g.Granter)
	grantee, ok2 := addrOK(g.Grantee)
	if !ok1 || !ok2 {
		return
	}
	a, err := g.GetAuthorization()
	if err != nil || a == nil {
		return
	}
	var exp *time.Time
	if g.Grant.Expiration != nil {
		e := *g.Grant.Expiration
		exp = &e
	}
	m.Grants[grantKey(granter, grantee, a.MsgTypeURL())] = exp
}
func (m *Model) ApplyRevoke(r *authz.MsgRevoke) {
	granter, ok1 := addrOK(r.Granter)
	grantee, ok2 := addrOK(r.Grantee)
	if ok1 && ok2 {
		delete(m.Grants, grantKey(granter, grantee, r.MsgTypeUrl))
	}
}

// HasGrant: 1 yes, 0 no, -1 boundary (expiration equals block time: left to the SDK)
func (m *Model) HasGrant(granter, grantee sdk.AccAddress, url string, bt time.Time) int {
	exp, ok := m.Grants[grantKey(granter, grantee, url)]
	if !ok {
		return 0
	}
	if exp == nil {
		return 1
	}
	if exp.Equal(bt) {
		return -1
	}
	if exp.Before(bt) {
		return 0
	}
	return 1
}

// ownerOf: the recorded owner of a denom ("" if it does not exist).
func (m *Model) ownerOf(denom string) string {
	if d := m.Denoms[denom]; d != nil {
		return d.Owner
	}
	return ""
}
