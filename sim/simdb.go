package main

import (
	"sync"

	dbm "github.com/cometbft/cometbft-db"
)

// SimDB is the simulated disk: an ordered in-memory dbm.DB with an explicit durability/crash model.
//   - every mutating operation (Set, SetSync, Delete, DeleteSync, Batch.Write, Batch.WriteSync) is counted;
//   - a crash trigger panics with crashSentinel BEFORE operation k takes effect;
//   - batches are atomic, writes are totally ordered, *Sync makes everything up to it durable;
//   - on a "power loss" crash a chosen prefix of the un-synced suffix survives (undo log).
type SimDB struct {
	mu       sync.Mutex
	mem      *cowMem // copy-on-write table: readers see whole batches and iterate over snapshots, as on a real disk database
	writes   int64 // mutating operations applied so far (since creation/clone)
	crashAt  int64 // 0 = disarmed; otherwise panic before the crashAt-th write counted from armBase
	armBase  int64
	pending  []undoOp // un-synced operations (for power-loss)
	dead     bool     // set once crashed: further writes panic too (a dead process writes nothing)
	stats    *SimDBStats
	failNext error // reserved
}

type SimDBStats struct {
	Writes, Syncs, Crashes, PowerLossUndone int64
}

type undoEntry struct {
	key    []byte
	old    []byte
	hadOld bool
}
type undoOp []undoEntry

type crashSentinel struct {
	Write int64
}

func NewSimDB() *SimDB { return &SimDB{mem: newCowMem(), stats: &SimDBStats{}} }

// Clone makes an independent deep copy of the durable+volatile content (used for crash-point
// enumeration and twins). The clone is disarmed.
func (d *SimDB) Clone() *SimDB {
	d.mu.Lock()
	defer d.mu.Unlock()
	n := NewSimDB()
	n.mem = d.mem.snapshot() // O(1): the two tables share unchanged nodes and copy on write
	return n
}

// Arm makes the k-th mutating operation from now (k>=1) crash before taking effect.
func (d *SimDB) Arm(k int64) {
	d.mu.Lock()
	d.armBase = d.writes
	d.crashAt = k
	d.mu.Unlock()
}

func (d *SimDB) Disarm() {
	d.mu.Lock()
	d.crashAt = 0
	d.mu.Unlock()
}

// Revive is called by the node wrapper when the "process" restarts on this disk.
// keepUnsynced = -1 keeps every completed write (process kill); otherwise only the first
// keepUnsynced un-synced operations survive (power loss).
func (d *SimDB) Revive(keepUnsynced int) {
	d.mu.Lock()
	defer d.mu.Unlock()
	if keepUnsynced >= 0 && keepUnsynced < len(d.pending) {
		for i := len(d.pending) - 1; i >= keepUnsynced; i-- {
			for j := len(d.pending[i]) - 1; j >= 0; j-- {
				e := d.pending[i][j]
				if e.hadOld {
					_ = d.mem.Set(e.key, e.old)
				} else {
					_ = d.mem.Delete(e.key)
				}
			}
			d.stats.PowerLossUndone++
		}
	}
	d.pending = nil
	d.dead = false
	d.crashAt = 0
}

func (d *SimDB) PendingUnsynced() int {
	d.mu.Lock()
	defer d.mu.Unlock()
	return len(d.pending)
}

func (d *SimDB) WriteCount() int64 {
	d.mu.Lock()
	defer d.mu.Unlock()
	return d.writes
}

// beforeWrite is called with d.mu held.
func (d *SimDB) beforeWrite() {
	if d.dead {
		panic(crashSentinel{Write: d.writes})
	}
	if d.crashAt > 0 && d.writes-d.armBase+1 >= d.crashAt {
		d.dead = true
		d.stats.Crashes++
		panic(crashSentinel{Write: d.writes + 1})
	}
	d.writes++
	d.stats.Writes++
}

func (d *SimDB) capture(key []byte) undoEntry {
	old, _ := d.mem.Get(key)
	e := undoEntry{key: cpBytes(key)}
	if old != nil {
		e.old = cpBytes(old)
		e.hadOld = true
	}
	return e
}

func (d *SimDB) synced() {
	d.pending = nil
	d.stats.Syncs++
}

func (d *SimDB) Get(k []byte) ([]byte, error) { return d.mem.Get(k) }
func (d *SimDB) Has(k []byte) (bool, error)   { return d.mem.Has(k) }

func (d *SimDB) set(k, v []byte, sync bool) error {
	d.mu.Lock()
	defer d.mu.Unlock()
	d.beforeWrite()
	u := undoOp{d.capture(k)}
	if err := d.mem.Set(k, v); err != nil {
		return err
	}
	if sync {
		d.synced()
	} else {
		d.pending = append(d.pending, u)
	}
	return nil
}
func (d *SimDB) del(k []byte, sync bool) error {
	d.mu.Lock()
	defer d.mu.Unlock()
	d.beforeWrite()
	u := undoOp{d.capture(k)}
	if err := d.mem.Delete(k); err != nil {
		return err
	}
	if sync {
		d.synced()
	} else {
		d.pending = append(d.pending, u)
	}
	return nil
}
func (d *SimDB) Set(k, v []byte) error     { return d.set(k, v, false) }
func (d *SimDB) SetSync(k, v []byte) error { return d.set(k, v, true) }
func (d *SimDB) Delete(k []byte) error     { return d.del(k, false) }
func (d *SimDB) DeleteSync(k []byte) error { return d.del(k, true) }

func (d *SimDB) Iterator(s, e []byte) (dbm.Iterator, error)        { return d.mem.Iterator(s, e) }
func (d *SimDB) ReverseIterator(s, e []byte) (dbm.Iterator, error) { return d.mem.ReverseIterator(s, e) }
func (d *SimDB) Close() error                                      { return nil } // the disk outlives the process
func (d *SimDB) Print() error                                      { return nil }
func (d *SimDB) Stats() map[string]string                          { return map[string]string{} }
func (d *SimDB) NewBatch() dbm.Batch                               { return &simBatch{db: d} }

type batchOp struct {
	del  bool
	k, v []byte
}
type simBatch struct {
	db     *SimDB
	ops    []batchOp
	closed bool
}

func (b *simBatch) Set(k, v []byte) error {
	if len(k) == 0 {
		return errKeyEmpty
	}
	if v == nil {
		return errValueNil
	}
	if b.closed {
		return errBatchClosed
	}
	b.ops = append(b.ops, batchOp{k: cpBytes(k), v: cpBytes(v)})
	return nil
}
func (b *simBatch) Delete(k []byte) error {
	if len(k) == 0 {
		return errKeyEmpty
	}
	if b.closed {
		return errBatchClosed
	}
	b.ops = append(b.ops, batchOp{del: true, k: cpBytes(k)})
	return nil
}
func (b *simBatch) write(sync bool) error {
	if b.closed {
		return errBatchClosed
	}
	d := b.db
	d.mu.Lock()
	defer d.mu.Unlock()
	d.beforeWrite()
	u := make(undoOp, 0, len(b.ops))
	t := d.mem.begin()
	for _, op := range b.ops {
		u = append(u, d.capture(op.k))
		if op.del {
			t.Delete(kvItem{k: op.k})
		} else {
			t.ReplaceOrInsert(kvItem{k: op.k, v: op.v})
		}
	}
	d.mem.commit(t) // readers see the whole batch or nothing of it
	if sync {
		d.synced()
	} else {
		d.pending = append(d.pending, u)
	}
	b.closed = true
	b.ops = nil
	return nil
}
func (b *simBatch) Write() error     { return b.write(false) }
func (b *simBatch) WriteSync() error { return b.write(true) }
func (b *simBatch) Close() error     { b.closed = true; b.ops = nil; return nil }

type simErr string

func (e simErr) Error() string { return string(e) }

const (
	errKeyEmpty    = simErr("key cannot be empty")
	errValueNil    = simErr("value cannot be nil")
	errBatchClosed = simErr("batch has been written or closed")
)

// cpBytes copies a slice, keeping "empty but not nil" distinct from nil (IAVL stores empty root values).
func cpBytes(b []byte) []byte {
	if b == nil {
		return nil
	}
	c := make([]byte, len(b))
	copy(c, b)
	return c
}
