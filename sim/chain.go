package main

import (
	"crypto/sha256"
	"encoding/hex"
	"encoding/json"
	"fmt"
	"os"
	"time"

	dbm "github.com/cometbft/cometbft-db"
	cmtcrypto "github.com/cometbft/cometbft/crypto"
	cryptoenc "github.com/cometbft/cometbft/crypto/encoding"
	cmtprotocrypto "github.com/cometbft/cometbft/proto/tendermint/crypto"
	codectypes "github.com/cosmos/cosmos-sdk/codec/types"
	txtypes "github.com/cosmos/cosmos-sdk/types/tx"
	"github.com/cosmos/cosmos-sdk/x/authz"
	crisistypes "github.com/cosmos/cosmos-sdk/x/crisis/types"
	govv1 "github.com/cosmos/cosmos-sdk/x/gov/types/v1"
	"github.com/cometbft/cometbft/libs/log"
	"github.com/cosmos/cosmos-sdk/baseapp"

	abci "github.com/cometbft/cometbft/abci/types"
	tmsecp "github.com/cometbft/cometbft/crypto/secp256k1"
	tmproto "github.com/cometbft/cometbft/proto/tendermint/types"
	tmtypes "github.com/cometbft/cometbft/types"
	"github.com/cosmos/cosmos-sdk/client"
	"github.com/cosmos/cosmos-sdk/codec"
	cryptocodec "github.com/cosmos/cosmos-sdk/crypto/codec"
	"github.com/cosmos/cosmos-sdk/crypto/keys/ed25519"
	"github.com/cosmos/cosmos-sdk/crypto/keys/secp256k1"
	simtestutil "github.com/cosmos/cosmos-sdk/testutil/sims"
	sdk "github.com/cosmos/cosmos-sdk/types"
	"github.com/cosmos/cosmos-sdk/types/tx/signing"
	authsigning "github.com/cosmos/cosmos-sdk/x/auth/signing"
	authtypes "github.com/cosmos/cosmos-sdk/x/auth/types"
	banktypes "github.com/cosmos/cosmos-sdk/x/bank/types"
	"github.com/medibloc/panacea-core/v2/app"
	aoltypes "github.com/medibloc/panacea-core/v2/x/aol/types"
	didtypes "github.com/medibloc/panacea-core/v2/x/did/types"
	pnfttypes "github.com/medibloc/panacea-core/v2/x/pnft/types"
)

const ChainID = "panasim-1"
const NumAccounts = 10
const NumDidKeys = 12
const FeeDenom = "umed"
const WhaleDenom = "uwhale"

// two denominations whose whole supply (2^255 each) sits with one account
const (
	GiantDenomA = "ugiant"
	GiantDenomB = "ibc/FFFFFFFFFFFFFFFFFFFFFFFFFFFFFFFFFFFFFFFFFFFFFFFFFFFFFFFFFFFFFFFF"
	GiantHolder = 2
	GiantAmount = "57896044618658097711785492504343953926634992332820282019728792003956564819968" // 2^255
)
const BurnAddress = "panacea100000000000000000000000000000000nqmafp" // documented burn address

type Account struct {
	Idx  int
	Priv *secp256k1.PrivKey
	Addr sdk.AccAddress
	Num  uint64
}

// Env is the run-independent, deterministic table of identities (independent of VERIF_SEED so that
// scripts can carry literal addresses).
type Env struct {
	Accs    []*Account
	DidKeys []tmsecp.PrivKey
	Dids    []string // DID derived from DidKeys[i] (did:panacea:<base58(sha256(pubkey))>)
	ValPriv *ed25519.PrivKey
	Val     *tmtypes.Validator
	ValSet  *tmtypes.ValidatorSet
	TxCfg   client.TxConfig
	Cdc     codec.Codec
	byAddr  map[string]*Account
}

var sdkConfigDone bool

// ensureSDKConfig sets the bech32 prefixes once; it must run before the first app.New of the process
// (addresses rendered earlier stay cached with the default prefix).
func ensureSDKConfig() {
	if !sdkConfigDone {
		app.SetConfig()
		sdkConfigDone = true
	}
}

const SharedKeys = 4

const (
	SoleDenom  = "usole"
	SoleHolder = 3
	SoleSupply = 1000
)

func NewEnv() *Env {
	ensureSDKConfig()
	e := &Env{byAddr: map[string]*Account{}}
	for i := 0; i < NumAccounts; i++ {
		priv := secp256k1.GenPrivKeyFromSecret([]byte(fmt.Sprintf("panasim-account-%d", i)))
		a := &Account{Idx: i, Priv: priv, Addr: sdk.AccAddress(priv.PubKey().Address()), Num: uint64(i)}
		e.Accs = append(e.Accs, a)
		e.byAddr[string(a.Addr)] = a
	}
	for i := 0; i < NumDidKeys; i++ {
		k := tmsecp.GenPrivKeySecp256k1([]byte(fmt.Sprintf("panasim-did-key-%d", i)))
		if i < SharedKeys {
			// the first DID keys ARE the keys of accounts 0..SharedKeys-1: a holder who controls a DID with the key
			// that also signs the holder's transactions (the relaying account's address is then derived from the
			// DID's authentication key)
			k = tmsecp.PrivKey(e.Accs[i].Priv.Key)
		}
		e.DidKeys = append(e.DidKeys, k)
		e.Dids = append(e.Dids, didtypes.NewDID(k.PubKey().Bytes()))
	}
	e.ValPriv = ed25519.GenPrivKeyFromSecret([]byte("panasim-validator-0"))
	tmPub, err := cryptocodec.ToTmPubKeyInterface(e.ValPriv.PubKey())
	if err != nil {
		panic(err)
	}
	e.Val = tmtypes.NewValidator(tmPub, 1)
	e.ValSet = tmtypes.NewValidatorSet([]*tmtypes.Validator{e.Val})
	// a throw-away app instance supplies the codec and TxConfig (makeEncodingConfig is unexported)
	tmp := app.New(log.NewNopLogger(), dbm.NewMemDB(), nil, true, simtestutil.AppOptionsMap{"home": os.TempDir()}, baseapp.SetChainID(ChainID))
	e.TxCfg = tmp.TxConfig()
	e.Cdc = tmp.AppCodec()
	return e
}

func (e *Env) AccByAddr(a sdk.AccAddress) *Account { return e.byAddr[string(a)] }

// GenesisSpec: what the generator puts into the initial state beyond funded accounts.
type GenesisSpec struct {
	TimeUnix int64             `json:"time_unix"`
	ZeroTime bool              `json:"zero_time,omitempty"` // genesis and every block header carry time.Time{}
	Aol      *AolGenesisSpec   `json:"aol,omitempty"`
	Did      []DidGenesisEntry `json:"did,omitempty"`
	Pnft     *PnftGenesisSpec  `json:"pnft,omitempty"`
	ExtraDenoms []string       `json:"extra_denoms,omitempty"` // additional bank denoms given to every account
	DropEmptySections bool     `json:"drop_empty_sections,omitempty"` // leave out app_state sections that are {}
	BurnFunded bool            `json:"burn_funded,omitempty"` // the burn address holds spendable coins in genesis (a bank balance; no auth account exists for it)
	LagCounters bool           `json:"lag_counters,omitempty"` // AOL topic record counters lag the records listed (valid for the module, not self-consistent)
}

type AolGenesisSpec struct {
	Topics []AolGenTopic `json:"topics"`
}
type AolGenTopic struct {
	OwnerHex string         `json:"owner_hex"` // raw address bytes (1..255 bytes are legal)
	Name     string         `json:"name"`
	Desc     string         `json:"desc,omitempty"`
	Writers  []AolGenWriter `json:"writers,omitempty"`
	Records  []AolGenRecord `json:"records,omitempty"`
	Bulk     int            `json:"bulk,omitempty"` // this many synthetic records (by the first writer) in front of Records
}
type AolGenWriter struct {
	AddrHex, Moniker, Desc string
	Ts                     int64
}
type AolGenRecord struct {
	KeyHex, ValueHex string
	Ts               int64
	Writer           string // bech32
}
type DidGenesisEntry struct {
	Did  string   `json:"did"`
	Tomb bool     `json:"tomb,omitempty"`
	Seq  uint64   `json:"seq"`
	Doc  *DocSpec `json:"doc,omitempty"`
}
type PnftGenesisSpec struct {
	Denoms []map[string]string `json:"denoms,omitempty"` // id,name,symbol,desc,uri,uri_hash,data,owner
	Tokens []map[string]string `json:"tokens,omitempty"` // denom,id,name,desc,uri,uri_hash,data,creator,owner,at(unix)
}

// BuildGenesis returns the app state bytes and the model that corresponds to it.
func (e *Env) BuildGenesis(a *app.App, gs *GenesisSpec) ([]byte, *Model) {
	var gaccs []authtypes.GenesisAccount
	var bals []banktypes.Balance
	for _, acc := range e.Accs {
		gaccs = append(gaccs, authtypes.NewBaseAccount(acc.Addr, acc.Priv.PubKey(), acc.Num, 0))
		cs := sdk.NewCoins(sdk.NewInt64Coin(FeeDenom, 1_000_000_000_000_000), sdk.NewInt64Coin(sdk.DefaultBondDenom, 5_000_000)) // a little of the bond denomination: small delegations
		for _, d := range gs.ExtraDenoms {
			if d == SoleDenom {
				// a denomination with a single holder and a small supply: all of it can end up at the burn address
				if acc.Idx == SoleHolder {
					cs = cs.Add(sdk.NewInt64Coin(d, SoleSupply))
				}
				continue
			}
			if d == GiantDenomA || d == GiantDenomB {
				if acc.Idx == GiantHolder {
					amt, _ := sdk.NewIntFromString(GiantAmount)
					cs = cs.Add(sdk.NewCoin(d, amt))
				}
				continue
			}
			if d == WhaleDenom {
				huge, _ := sdk.NewIntFromString("1000000000000000000000000000000000000000000") // 10^42: amounts far beyond int64/uint64
				cs = cs.Add(sdk.NewCoin(d, huge))
				continue
			}
			cs = cs.Add(sdk.NewInt64Coin(d, 1_000_000_000_000))
		}
		bals = append(bals, banktypes.Balance{Address: acc.Addr.String(), Coins: cs})
	}
	if gs.BurnFunded {
		bals = append(bals, banktypes.Balance{Address: BurnAddress, Coins: sdk.NewCoins(sdk.NewInt64Coin(FeeDenom, 7_000_000))})
	}
	state := a.DefaultGenesis()
	state, err := simtestutil.GenesisStateWithValSet(a.AppCodec(), state, e.ValSet, gaccs, bals...)
	if err != nil {
		panic(err)
	}
	// governance that simulated accounts can drive: a deposit of 1umed opens the voting period, which lasts 10 s of
	// block time; account 0 holds the only delegation, so its vote decides
	var gg govv1.GenesisState
	e.Cdc.MustUnmarshalJSON(state["gov"], &gg)
	vp := 10 * time.Second
	gg.Params.MinDeposit = sdk.NewCoins(sdk.NewInt64Coin(FeeDenom, 1))
	gg.Params.VotingPeriod = &vp
	state["gov"] = e.Cdc.MustMarshalJSON(&gg)
	// the fee of a MsgVerifyInvariant in the coin the simulated accounts hold
	var cg crisistypes.GenesisState
	e.Cdc.MustUnmarshalJSON(state["crisis"], &cg)
	cg.ConstantFee = sdk.NewInt64Coin(FeeDenom, 1000)
	state["crisis"] = e.Cdc.MustMarshalJSON(&cg)
	custom, m := e.BuildGenesisModelOnly(gs)
	for k, v := range custom {
		state[k] = v
	}
	if gs.DropEmptySections {
		for k, v := range state {
			if string(v) == "{}" {
				delete(state, k)
			}
		}
	}
	bz, err := json.Marshal(state)
	if err != nil {
		panic(err)
	}
	return bz, m
}

// BuildGenesisModelOnly returns the custom-module genesis sections and the corresponding model.
func (e *Env) BuildGenesisModelOnly(gs *GenesisSpec) (map[string]json.RawMessage, *Model) {
	state := map[string]json.RawMessage{}
	m := NewModel()
	if gs.Aol != nil {
		g := aoltypes.DefaultGenesis()
		for _, t := range gs.Aol.Topics {
			ob := mustHex(t.OwnerHex)
			owner := sdk.AccAddress(ob)
			ok := string(ob)
			if m.Aol[ok] == nil {
				m.Aol[ok] = map[string]*AolTopicState{}
			}
			m.AolOwners[ok] = true
			ts := &AolTopicState{T: TopicM{Desc: t.Desc}, Writers: map[string]WriterM{}}
			m.Aol[ok][t.Name] = ts
			for _, w := range t.Writers {
				wb := mustHex(w.AddrHex)
				ts.Writers[string(wb)] = WriterM{Moniker: w.Moniker, Desc: w.Desc, Ts: w.Ts}
				g.Writers[owner.String()+"/"+t.Name+"/"+sdk.AccAddress(wb).String()] = &aoltypes.Writer{Moniker: w.Moniker, Description: w.Desc, NanoTimestamp: w.Ts}
			}
			recs := t.Records
			if t.Bulk > 0 && len(t.Writers) > 0 {
				bw := sdk.AccAddress(mustHex(t.Writers[0].AddrHex)).String()
				recs = make([]AolGenRecord, 0, t.Bulk+len(t.Records))
				for i := 0; i < t.Bulk; i++ {
					recs = append(recs, AolGenRecord{KeyHex: fmt.Sprintf("%06x", i), ValueHex: fmt.Sprintf("%02x", i%251), Ts: t.Writers[0].Ts + int64(i), Writer: bw})
				}
				recs = append(recs, t.Records...)
			}
			for i, r := range recs {
				ts.Records = append(ts.Records, RecordM{Key: mustHex(r.KeyHex), Value: mustHex(r.ValueHex), Ts: r.Ts, Writer: r.Writer})
				g.Records[fmt.Sprintf("%s/%s/%d", owner.String(), t.Name, i)] = &aoltypes.Record{Key: mustHex(r.KeyHex), Value: mustHex(r.ValueHex), NanoTimestamp: r.Ts, WriterAddress: r.Writer}
			}
			nrec := uint64(len(recs))
			if gs.LagCounters && nrec >= 2 {
				nrec = 0
			}
			g.Topics[owner.String()+"/"+t.Name] = &aoltypes.Topic{Description: t.Desc, TotalRecords: nrec, TotalWriters: uint64(len(t.Writers))}
		}
		for ok, ts := range m.Aol {
			g.Owners[sdk.AccAddress([]byte(ok)).String()] = &aoltypes.Owner{TotalTopics: uint64(len(ts))}
		}
		state[aoltypes.ModuleName] = e.Cdc.MustMarshalJSON(g)
	}
	if len(gs.Did) > 0 {
		g := &didtypes.GenesisState{Documents: map[string]*didtypes.DIDDocumentWithSeq{}}
		for i := range gs.Did {
			d := &gs.Did[i]
			if d.Tomb {
				g.Documents[d.Did] = &didtypes.DIDDocumentWithSeq{Document: &didtypes.DIDDocument{}, Sequence: d.Seq}
				m.Did[d.Did] = &DidEntry{Tomb: true, Seq: d.Seq}
			} else {
				doc := e.BuildDoc(d.Doc)
				g.Documents[d.Did] = &didtypes.DIDDocumentWithSeq{Document: doc, Sequence: d.Seq}
				m.Did[d.Did] = &DidEntry{Doc: cloneDoc(doc), Seq: d.Seq}
			}
		}
		state[didtypes.ModuleName] = e.Cdc.MustMarshalJSON(g)
	}
	if gs.Pnft != nil {
		g := pnfttypes.DefaultGenesis()
		for _, d := range gs.Pnft.Denoms {
			g.Denoms = append(g.Denoms, &pnfttypes.Denom{Id: d["id"], Name: d["name"], Symbol: d["symbol"], Description: d["desc"], Uri: d["uri"], UriHash: d["uri_hash"], Data: d["data"], Owner: d["owner"]})
			m.Denoms[d["id"]] = &DenomM{Id: d["id"], Name: d["name"], Symbol: d["symbol"], Description: d["desc"], Uri: d["uri"], UriHash: d["uri_hash"], Data: d["data"], Owner: d["owner"]}
		}
		for _, t := range gs.Pnft.Tokens {
			var at int64
			fmt.Sscan(t["at"], &at)
			ct := time.Unix(at, 0).UTC()
			g.Pnfts = append(g.Pnfts, &pnfttypes.Pnft{DenomId: t["denom"], Id: t["id"], Name: t["name"], Description: t["desc"], Uri: t["uri"], UriHash: t["uri_hash"], Data: t["data"], Creator: t["creator"], Owner: t["owner"], CreatedAt: ct})
			if m.Tokens[t["denom"]] == nil {
				m.Tokens[t["denom"]] = map[string]*TokenM{}
			}
			m.Tokens[t["denom"]][t["id"]] = &TokenM{DenomId: t["denom"], Id: t["id"], Name: t["name"], Description: t["desc"], Uri: t["uri"], UriHash: t["uri_hash"], Data: t["data"], Creator: t["creator"], Owner: canonAddr(t["owner"]), CreatedAt: ct}
		}
		state[pnfttypes.ModuleName] = e.Cdc.MustMarshalJSON(g)
	}
	return state, m
}

func mustHex(s string) []byte {
	b, err := hex.DecodeString(s)
	if err != nil {
		panic(err)
	}
	return b
}

// ---------------------------------------------------------------------------------------------
// transactions

type SigMode string

const (
	ModeDirect SigMode = "direct"
	ModeAmino  SigMode = "amino"
	ModeAux    SigMode = "aux" // only for a non-fee-paying signer
)

func (m SigMode) sdk() signing.SignMode {
	switch m {
	case ModeAmino:
		return signing.SignMode_SIGN_MODE_LEGACY_AMINO_JSON
	case ModeAux:
		return signing.SignMode_SIGN_MODE_DIRECT_AUX
	}
	return signing.SignMode_SIGN_MODE_DIRECT
}

// SignerUse describes how one signature of a transaction was produced.
type SignerUse struct {
	Acc      int     // account index whose key signs
	Mode     SigMode
	AccNum   uint64
	Seq      uint64
	ChainID  string
	BodyHash string // hash of the message list + fee + memo the signature was made over
	Shape    bodyShape // of the message list the signature was made over
}

// bodyShape separates what a message list says from which message types say it: Types is the list of type URLs
// (nested ones included), Content a hash of the field values with every type URL and every empty value removed.
// Two lists with different Types and equal Content are "sibling types with equal field values" - the one shape of
// sign-bytes collision that the missing amino type names (known finding F10) explain.
type bodyShape struct{ Types, Content string }

func shapeOf(cdc codec.Codec, msgs []sdk.Msg) bodyShape {
	var types []string
	h := sha256.New()
	var strip func(v interface{}) interface{}
	strip = func(v interface{}) interface{} {
		switch t := v.(type) {
		case map[string]interface{}:
			out := map[string]interface{}{}
			for k, x := range t {
				if k == "@type" {
					types = append(types, fmt.Sprint(x))
					continue
				}
				if y := strip(x); y != nil {
					out[k] = y
				}
			}
			if len(out) == 0 {
				return nil
			}
			return out
		case []interface{}:
			var out []interface{}
			for _, x := range t {
				out = append(out, strip(x)) // positions matter: keep nils
			}
			if len(out) == 0 {
				return nil
			}
			return out
		case string:
			if t == "" {
				return nil
			}
		case bool:
			if !t {
				return nil
			}
		case float64:
			if t == 0 {
				return nil
			}
		}
		return v
	}
	for _, m := range msgs {
		bz, err := cdc.MarshalInterfaceJSON(m)
		if err != nil {
			h.Write([]byte("unmarshalable"))
			continue
		}
		var v interface{}
		if json.Unmarshal(bz, &v) != nil {
			h.Write(bz)
			continue
		}
		nb, _ := json.Marshal(strip(v))
		h.Write(nb)
		h.Write([]byte{0})
	}
	return bodyShape{Types: fmt.Sprint(types), Content: fmt.Sprintf("%x", h.Sum(nil)[:12])}
}

type BuiltTx struct {
	Bytes   []byte
	Msgs    []sdk.Msg
	Sigs    []SignerUse
	Fee     sdk.Coins
	Gas     uint64
	Payer   sdk.AccAddress // first signer
	Granter sdk.AccAddress // the fee_granter field, if set
	BodyHash string        // hash of what the delivered bytes carry
	SignBytes [][]byte     // per signature
	// AltSignBytes: for a tampered transaction, what the same signers would have had to sign for the
	// delivered (tampered) message list — used for the injectivity check of C14.
	AltSignBytes [][]byte
	Shape        bodyShape // of the delivered message list
}

func msgsHash(cdc codec.Codec, msgs []sdk.Msg, fee sdk.Coins, gas uint64) string {
	h := sha256.New()
	for _, m := range msgs {
		bz, err := cdc.MarshalInterface(m)
		if err != nil {
			h.Write([]byte("unmarshalable:" + err.Error()))
			continue
		}
		var l [4]byte
		l[0], l[1], l[2], l[3] = byte(len(bz)>>24), byte(len(bz)>>16), byte(len(bz)>>8), byte(len(bz))
		h.Write(l[:])
		h.Write(bz)
	}
	h.Write([]byte(fee.String()))
	h.Write([]byte(fmt.Sprintf("|gas=%d", gas)))
	return fmt.Sprintf("%x", h.Sum(nil)[:12])
}

type TxParams struct {
	Msgs    []sdk.Msg
	Signers []int     // account indices signing, in signature order
	Modes   []SigMode // per signer ("" = direct)
	Seqs    []uint64  // sequence used by each signer
	AccNums []uint64
	ChainID string
	Fee     sdk.Coins
	Gas     uint64
	Granter sdk.AccAddress
	TimeoutHeight uint64
	// SignOver: if non-nil the signatures are made over these messages instead of Msgs (tampering relay:
	// signatures collected for one message list, transaction rebuilt with another).
	SignOver []sdk.Msg
}

// BuildTx signs and encodes. It returns an error only when the SDK refuses to even construct the bytes
// (e.g. a message whose GetSigners panics); callers treat that as "the client could not build it".
func (e *Env) BuildTx(p TxParams) (bt *BuiltTx, err error) {
	defer func() {
		if r := recover(); r != nil {
			bt, err = nil, fmt.Errorf("tx construction panicked: %v", r)
		}
	}()
	mk := func(msgs []sdk.Msg) (client.TxBuilder, error) {
		b := e.TxCfg.NewTxBuilder()
		if err := b.SetMsgs(msgs...); err != nil {
			return nil, err
		}
		b.SetGasLimit(p.Gas)
		b.SetFeeAmount(p.Fee)
		if len(p.Granter) > 0 {
			b.SetFeeGranter(p.Granter)
		}
		if p.TimeoutHeight > 0 {
			b.SetTimeoutHeight(p.TimeoutHeight)
		}
		return b, nil
	}
	signMsgs := p.Msgs
	if p.SignOver != nil {
		signMsgs = p.SignOver
	}
	sb, err := mk(signMsgs)
	if err != nil {
		return nil, err
	}
	var sigs []signing.SignatureV2
	for i, ai := range p.Signers {
		acc := e.Accs[ai]
		mode := ModeDirect
		if i < len(p.Modes) && p.Modes[i] != "" {
			mode = p.Modes[i]
		}
		sigs = append(sigs, signing.SignatureV2{PubKey: acc.Priv.PubKey(), Data: &signing.SingleSignatureData{SignMode: mode.sdk()}, Sequence: p.Seqs[i]})
	}
	if err := sb.SetSignatures(sigs...); err != nil {
		return nil, err
	}
	out := &BuiltTx{Msgs: p.Msgs, Fee: p.Fee, Gas: p.Gas, Granter: p.Granter}
	signedHash := msgsHash(e.Cdc, signMsgs, p.Fee, p.Gas)
	signedShape := shapeOf(e.Cdc, signMsgs)
	for i, ai := range p.Signers {
		acc := e.Accs[ai]
		mode := ModeDirect
		if i < len(p.Modes) && p.Modes[i] != "" {
			mode = p.Modes[i]
		}
		sd := authsigning.SignerData{ChainID: p.ChainID, AccountNumber: p.AccNums[i], Sequence: p.Seqs[i], PubKey: acc.Priv.PubKey(), Address: acc.Addr.String()}
		bz, err := e.TxCfg.SignModeHandler().GetSignBytes(mode.sdk(), sd, sb.GetTx())
		if err != nil {
			return nil, err
		}
		sg, err := acc.Priv.Sign(bz)
		if err != nil {
			return nil, err
		}
		sigs[i].Data = &signing.SingleSignatureData{SignMode: mode.sdk(), Signature: sg}
		out.Sigs = append(out.Sigs, SignerUse{Acc: ai, Mode: mode, AccNum: p.AccNums[i], Seq: p.Seqs[i], ChainID: p.ChainID, BodyHash: signedHash, Shape: signedShape})
		out.SignBytes = append(out.SignBytes, bz)
	}
	fb := sb
	if p.SignOver != nil {
		fb, err = mk(p.Msgs)
		if err != nil {
			return nil, err
		}
		if err := fb.SetSignatures(sigs...); err == nil {
			for i, ai := range p.Signers {
				acc := e.Accs[ai]
				sd := authsigning.SignerData{ChainID: p.ChainID, AccountNumber: p.AccNums[i], Sequence: p.Seqs[i], PubKey: acc.Priv.PubKey(), Address: acc.Addr.String()}
				var alt []byte
				func() {
					defer func() { recover() }()
					alt, _ = e.TxCfg.SignModeHandler().GetSignBytes(out.Sigs[i].Mode.sdk(), sd, fb.GetTx())
				}()
				out.AltSignBytes = append(out.AltSignBytes, alt)
			}
		}
	}
	if err := fb.SetSignatures(sigs...); err != nil {
		return nil, err
	}
	bz, err := e.TxCfg.TxEncoder()(fb.GetTx())
	if err != nil {
		return nil, err
	}
	out.Bytes = bz
	out.BodyHash = msgsHash(e.Cdc, p.Msgs, p.Fee, p.Gas)
	out.Shape = shapeOf(e.Cdc, p.Msgs)
	if len(p.Signers) > 0 {
		out.Payer = e.Accs[p.Signers[0]].Addr
	}
	return out, nil
}

// ---------------------------------------------------------------------------------------------
// blocks

type Block struct {
	Height int64
	Time   time.Time
	Txs    [][]byte
}

func (e *Env) Header(b *Block) tmproto.Header {
	return tmproto.Header{ChainID: ChainID, Height: b.Height, Time: b.Time, ValidatorsHash: e.ValSet.Hash(),
		NextValidatorsHash: e.ValSet.Hash(), ProposerAddress: e.Val.Address}
}

func (e *Env) BeginReq(b *Block) abci.RequestBeginBlock {
	return abci.RequestBeginBlock{Header: e.Header(b)}
}

// ---------------------------------------------------------------------------------------------

type tmConsensusParams = tmproto.ConsensusParams

func defaultConsensusParams() *tmproto.ConsensusParams {
	p := *simtestutil.DefaultConsensusParams
	blk := *p.Block
	blk.MaxGas = -1
	p.Block = &blk
	return &p
}

func cryptoToProto(pk cmtcrypto.PubKey) (cmtprotocrypto.PublicKey, error) {
	return cryptoenc.PubKeyToProto(pk)
}

// BuildRawTx assembles the transaction bytes by hand (SIGN_MODE_DIRECT), without asking the messages
// for their signers: this is how a hostile client delivers messages that an SDK client refuses to build.
func (e *Env) BuildRawTx(msgs []sdk.Msg, signers []int, seqs, nums []uint64, chain string, fee sdk.Coins, gas uint64) (bt *BuiltTx, err error) {
	defer func() {
		if r := recover(); r != nil {
			bt, err = nil, fmt.Errorf("raw tx construction panicked: %v", r)
		}
	}()
	var anys []*codectypes.Any
	for _, m := range msgs {
		a, err := codectypes.NewAnyWithValue(m)
		if err != nil {
			return nil, err
		}
		anys = append(anys, a)
	}
	body := &txtypes.TxBody{Messages: anys}
	bodyBz, err := body.Marshal()
	if err != nil {
		return nil, err
	}
	ai := &txtypes.AuthInfo{Fee: &txtypes.Fee{Amount: fee, GasLimit: gas}}
	for i, si := range signers {
		acc := e.Accs[si%len(e.Accs)]
		pk, err := codectypes.NewAnyWithValue(acc.Priv.PubKey())
		if err != nil {
			return nil, err
		}
		ai.SignerInfos = append(ai.SignerInfos, &txtypes.SignerInfo{PublicKey: pk, Sequence: seqs[i],
			ModeInfo: &txtypes.ModeInfo{Sum: &txtypes.ModeInfo_Single_{Single: &txtypes.ModeInfo_Single{Mode: signing.SignMode_SIGN_MODE_DIRECT}}}})
	}
	aiBz, err := ai.Marshal()
	if err != nil {
		return nil, err
	}
	out := &BuiltTx{Msgs: msgs, Fee: fee, Gas: gas, BodyHash: msgsHash(e.Cdc, msgs, fee, gas)}
	raw := &txtypes.TxRaw{BodyBytes: bodyBz, AuthInfoBytes: aiBz}
	for i, si := range signers {
		acc := e.Accs[si%len(e.Accs)]
		sd := &txtypes.SignDoc{BodyBytes: bodyBz, AuthInfoBytes: aiBz, ChainId: chain, AccountNumber: nums[i]}
		sb, err := sd.Marshal()
		if err != nil {
			return nil, err
		}
		sg, err := acc.Priv.Sign(sb)
		if err != nil {
			return nil, err
		}
		raw.Signatures = append(raw.Signatures, sg)
		out.Sigs = append(out.Sigs, SignerUse{Acc: acc.Idx, Mode: ModeDirect, AccNum: nums[i], Seq: seqs[i], ChainID: chain, BodyHash: out.BodyHash})
		out.SignBytes = append(out.SignBytes, sb)
	}
	out.Bytes, err = raw.Marshal()
	if err != nil {
		return nil, err
	}
	if len(signers) > 0 {
		out.Payer = e.Accs[signers[0]%len(e.Accs)].Addr
	}
	return out, nil
}

// decodeOffsets returns the offsets acknowledged by the add-record responses inside a tx result, in
// message order (responses wrapped by authz exec included).
func decodeOffsets(data []byte) []int64 {
	var out []int64
	var tmd sdk.TxMsgData
	if err := tmd.Unmarshal(data); err != nil {
		return nil
	}
	for _, a := range tmd.MsgResponses {
		switch a.TypeUrl {
		case "/panacea.aol.v2.MsgAddRecordResponse":
			var r aoltypes.MsgAddRecordResponse
			if r.Unmarshal(a.Value) == nil {
				out = append(out, int64(r.Offset))
			}
		case "/cosmos.authz.v1beta1.MsgExecResponse":
			var er authz.MsgExecResponse
			if er.Unmarshal(a.Value) == nil {
				for _, rb := range er.Results {
					var r aoltypes.MsgAddRecordResponse
					if len(rb) > 0 && r.Unmarshal(rb) == nil && r.TopicName != "" {
						out = append(out, int64(r.Offset))
					}
				}
			}
		}
	}
	return out
}
