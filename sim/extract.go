package main

// Extraction of the custom-module state from the real stores into the same flat rendering the
// reference model produces, plus raw-store structural invariants. Decoders are written against the
// documented key layouts (own code, not the repository's decoders).

import (
	"bytes"
	"crypto/sha256"
	"encoding/binary"
	"encoding/hex"
	"fmt"
	"sort"

	sdk "github.com/cosmos/cosmos-sdk/types"
	"github.com/cosmos/cosmos-sdk/x/nft"
	aoltypes "github.com/medibloc/panacea-core/v2/x/aol/types"
	didtypes "github.com/medibloc/panacea-core/v2/x/did/types"
	pnfttypes "github.com/medibloc/panacea-core/v2/x/pnft/types"
)

type KV struct{ K, V []byte }

type StoreGetter func(name string) sdk.KVStore

func DumpStore(st sdk.KVStore) []KV {
	it := st.Iterator(nil, nil)
	defer it.Close()
	var out []KV
	for ; it.Valid(); it.Next() {
		out = append(out, KV{append([]byte(nil), it.Key()...), append([]byte(nil), it.Value()...)})
	}
	return out
}

func HashKVs(kvs []KV) string {
	h := sha256.New()
	var b [8]byte
	for _, kv := range kvs {
		binary.LittleEndian.PutUint64(b[:], uint64(len(kv.K)))
		h.Write(b[:])
		h.Write(kv.K)
		binary.LittleEndian.PutUint64(b[:], uint64(len(kv.V)))
		h.Write(b[:])
		h.Write(kv.V)
	}
	return hex.EncodeToString(h.Sum(nil)[:16])
}

var customStores = []string{"aol", "did", "pnft"}

// CustomDumpHashes returns one hash per custom store (raw bytes).
func CustomDumpHashes(get StoreGetter) map[string]string {
	out := map[string]string{}
	for _, s := range customStores {
		out[s] = HashKVs(DumpStore(get(s)))
	}
	return out
}

// splitCompKey decodes [len][bytes][len][bytes]...
func splitCompKey(bz []byte) ([][]byte, bool) {
	var out [][]byte
	i := 0
	for i < len(bz) {
		n := int(bz[i])
		i++
		if i+n > len(bz) {
			return nil, false
		}
		out = append(out, bz[i:i+n])
		i += n
	}
	return out, true
}

// Extracted is the decoded state plus structural problems found while decoding.
type Extracted struct {
	M        *Model // structured form of the same content (counters derived, not stored)
	Flat     map[string]string
	Problems []Problem // raw-store invariant violations (property, class, detail)
	// counts for limits scan
	NTopics, NWriters, NRecords, NDids, NDenoms, NTokens int
	UnknownKeys int // entries under key prefixes this decoder does not know
	Stored                                               []StoredField // values to check against documented limits (C16)
}

type Problem struct {
	Prop, Class, Detail string
	Entity              string
}

type StoredField struct{ Kind, Value string }

func ExtractState(get StoreGetter) *Extracted {
	ex := &Extracted{Flat: map[string]string{}, M: NewModel()}
	extractAol(get("aol"), ex)
	extractDid(get("did"), ex)
	extractPnft(get("pnft"), ex)
	return ex
}

func (ex *Extracted) mtopic(owner, name []byte) *AolTopicState {
	o := string(owner)
	if ex.M.Aol[o] == nil {
		ex.M.Aol[o] = map[string]*AolTopicState{}
	}
	t := ex.M.Aol[o][string(name)]
	if t == nil {
		t = &AolTopicState{Writers: map[string]WriterM{}}
		ex.M.Aol[o][string(name)] = t
	}
	return t
}

func (ex *Extracted) prob(prop, class, entity, f string, a ...interface{}) {
	ex.Problems = append(ex.Problems, Problem{Prop: prop, Class: class, Entity: entity, Detail: fmt.Sprintf(f, a...)})
}

func extractAol(st sdk.KVStore, ex *Extracted) {
	type tinfo struct {
		nrec, nwri uint64
		writers    int
		offsets    []uint64
	}
	topics := map[string]*tinfo{}
	ownerStored := map[string]uint64{}
	ownerTopics := map[string]int{}
	for _, kv := range DumpStore(st) {
		if len(kv.K) == 0 {
			ex.prob("C13", "aol.store.badkey", "", "empty key")
			continue
		}
		parts, ok := splitCompKey(kv.K[1:])
		if !ok {
			ex.prob("C13", "aol.store.badkey", "", "undecodable composite key %x", kv.K)
			continue
		}
		switch kv.K[0] {
		case 0x00:
			var o aoltypes.Owner
			if len(parts) != 1 || o.Unmarshal(kv.V) != nil {
				ex.prob("C13", "aol.store.badentry", "", "owner entry %x", kv.K)
				continue
			}
			ownerStored[string(parts[0])] = o.TotalTopics
			ex.M.AolOwners[string(parts[0])] = true
			ex.Flat["aol/owner/"+hex.EncodeToString(parts[0])] = fmt.Sprintf("topics=%d", o.TotalTopics)
		case 0x01:
			var t aoltypes.Topic
			if len(parts) != 2 || t.Unmarshal(kv.V) != nil {
				ex.prob("C13", "aol.store.badentry", "", "topic entry %x", kv.K)
				continue
			}
			tk := hex.EncodeToString(parts[0]) + "/" + hex.EncodeToString(parts[1])
			ti := topics[tk]
			if ti == nil {
				ti = &tinfo{}
				topics[tk] = ti
			}
			ti.nrec, ti.nwri = t.TotalRecords, t.TotalWriters
			ex.mtopic(parts[0], parts[1]).T = TopicM{Desc: t.Description}
			ownerTopics[string(parts[0])]++
			ex.Flat["aol/topic/"+tk] = fmt.Sprintf("desc=%x;nrec=%d;nwri=%d", t.Description, t.TotalRecords, t.TotalWriters)
			ex.NTopics++
			ex.Stored = append(ex.Stored, StoredField{"topic", string(parts[1])}, StoredField{"description", t.Description})
		case 0x02:
			var w aoltypes.Writer
			if len(parts) != 3 || w.Unmarshal(kv.V) != nil {
				ex.prob("C13", "aol.store.badentry", "", "writer entry %x", kv.K)
				continue
			}
			tk := hex.EncodeToString(parts[0]) + "/" + hex.EncodeToString(parts[1])
			ti := topics[tk]
			if ti == nil {
				ti = &tinfo{nrec: ^uint64(0)}
				topics[tk] = ti
			}
			ti.writers++
			ex.mtopic(parts[0], parts[1]).Writers[string(parts[2])] = WriterM{Moniker: w.Moniker, Desc: w.Description, Ts: w.NanoTimestamp}
			ex.Flat["aol/writer/"+tk+"/"+hex.EncodeToString(parts[2])] = fmt.Sprintf("mon=%x;desc=%x;ts=%d", w.Moniker, w.Description, w.NanoTimestamp)
			ex.NWriters++
			ex.Stored = append(ex.Stored, StoredField{"moniker", w.Moniker}, StoredField{"description", w.Description})
		case 0x03:
			var r aoltypes.Record
			if len(parts) != 3 || len(parts[2]) != 8 || r.Unmarshal(kv.V) != nil {
				ex.prob("C01", "aol.store.badentry", "", "record entry %x", kv.K)
				continue
			}
			tk := hex.EncodeToString(parts[0]) + "/" + hex.EncodeToString(parts[1])
			ti := topics[tk]
			if ti == nil {
				ti = &tinfo{nrec: ^uint64(0)}
				topics[tk] = ti
			}
			off := binary.BigEndian.Uint64(parts[2])
			ti.offsets = append(ti.offsets, off)
			mt := ex.mtopic(parts[0], parts[1])
			for uint64(len(mt.Records)) <= off && off < 1<<20 {
				mt.Records = append(mt.Records, RecordM{})
			}
			if off < 1<<20 {
				mt.Records[off] = RecordM{Key: r.Key, Value: r.Value, Ts: r.NanoTimestamp, Writer: r.WriterAddress}
			}
			ex.Flat[fmt.Sprintf("aol/record/%s/%016x", tk, off)] = fmt.Sprintf("k=%x;v=%x;ts=%d;w=%s", r.Key, r.Value, r.NanoTimestamp, r.WriterAddress)
			ex.NRecords++
			ex.Stored = append(ex.Stored, StoredField{"record_key", string(r.Key)}, StoredField{"record_value", string(r.Value)})
		default:
			// a key space this decoder does not know (an index a later version adds, say) is not a violation of any
			// listed property by itself: what the known key spaces hold is judged, the rest is only counted
			ex.UnknownKeys++
		}
	}
	tks := make([]string, 0, len(topics))
	for k := range topics {
		tks = append(tks, k)
	}
	sort.Strings(tks)
	for _, tk := range tks {
		ti := topics[tk]
		if ti.nrec == ^uint64(0) {
			ex.prob("C13", "aol.orphan", tk, "writers/records exist under topic %s which has no topic entry", tk)
			continue
		}
		if uint64(ti.writers) != ti.nwri {
			ex.prob("C13", "aol.counter.writers", tk, "topic %s reports total_writers=%d but %d writers are listed", tk, ti.nwri, ti.writers)
		}
		if uint64(len(ti.offsets)) != ti.nrec {
			ex.prob("C13", "aol.counter.records", tk, "topic %s reports total_records=%d but %d records are stored", tk, ti.nrec, len(ti.offsets))
		}
		sort.Slice(ti.offsets, func(i, j int) bool { return ti.offsets[i] < ti.offsets[j] })
		for i, off := range ti.offsets {
			if off != uint64(i) {
				ex.prob("C01", "aol.offsets.gap", tk, "topic %s: record offsets are not 0..n-1 (position %d holds offset %d)", tk, i, off)
				break
			}
		}
	}
	os := make([]string, 0, len(ownerTopics))
	for o := range ownerTopics {
		os = append(os, o)
	}
	sort.Strings(os)
	for _, o := range os {
		st, ok := ownerStored[o]
		if !ok {
			ex.prob("C13", "aol.counter.topics", hex.EncodeToString([]byte(o)), "owner %x has %d topics but no owner entry", o, ownerTopics[o])
		} else if st != uint64(ownerTopics[o]) {
			ex.prob("C13", "aol.counter.topics", hex.EncodeToString([]byte(o)), "owner %x reports total_topics=%d but %d topics exist", o, st, ownerTopics[o])
		}
	}
	oss := make([]string, 0, len(ownerStored))
	for o := range ownerStored {
		oss = append(oss, o)
	}
	sort.Strings(oss)
	for _, o := range oss {
		if _, ok := ownerTopics[o]; !ok && ownerStored[o] != 0 {
			ex.prob("C13", "aol.counter.topics", hex.EncodeToString([]byte(o)), "owner %x reports total_topics=%d but no topics exist", o, ownerStored[o])
		}
	}
}

// readUvarint-based length prefix (amino/proto length-prefixed)
func unLengthPrefix(bz []byte) ([]byte, bool) {
	n, k := binary.Uvarint(bz)
	if k <= 0 || uint64(len(bz)-k) != n {
		return nil, false
	}
	return bz[k:], true
}

func extractDid(st sdk.KVStore, ex *Extracted) {
	for _, kv := range DumpStore(st) {
		if len(kv.K) < 1 || kv.K[0] != 0x00 {
			ex.prob("C11", "did.store.badkey", "", "key %x", kv.K)
			continue
		}
		did := string(kv.K[1:])
		body, ok := unLengthPrefix(kv.V)
		var d didtypes.DIDDocumentWithSeq
		if !ok || d.Unmarshal(body) != nil {
			ex.prob("C11", "did.store.badentry", did, "undecodable value for %q", did)
			continue
		}
		k := "did/" + hex.EncodeToString([]byte(did))
		ex.NDids++
		ex.Stored = append(ex.Stored, StoredField{"did", did})
		if d.Document == nil || d.Document.Id == "" {
			if d.Sequence != 0 {
				ex.Flat[k] = fmt.Sprintf("tomb;seq=%d", d.Sequence)
				ex.M.Did[did] = &DidEntry{Tomb: true, Seq: d.Sequence}
			} else {
				ex.Flat[k] = "empty;seq=0"
				// an entry that every reader takes for "never existed": what a deactivation leaves behind when it stores
				// sequence 0 (no transaction and no simulated genesis writes such an entry on purpose)
				ex.prob("C05", "did.entry_reads_as_absent", did, "the registry holds an entry for %s with an empty document and sequence 0: a tombstone that reads as absent", did)
			}
			if d.Document != nil {
				bz, _ := d.Document.Marshal()
				if len(bz) != 0 {
					ex.prob("C05", "did.tombstone.nonempty", did, "tombstone of %s carries document bytes %x", did, bz)
				}
			}
			continue
		}
		bz, err := d.Document.Marshal()
		if err != nil {
			ex.prob("C11", "did.store.badentry", did, "document of %q does not re-marshal: %v", did, err)
			continue
		}
		ex.Flat[k] = fmt.Sprintf("doc=%x;seq=%d", bz, d.Sequence)
		ex.M.Did[did] = &DidEntry{Doc: d.Document, Seq: d.Sequence}
		if d.Document.Id != did {
			ex.prob("C11", "did.entry_id_mismatch", did, "registry key %s holds a document whose id is %s", did, d.Document.Id)
		}
		for _, vm := range d.Document.VerificationMethods {
			if vm != nil {
				ex.Stored = append(ex.Stored, StoredField{"method_id:" + d.Document.Id, vm.Id})
			}
		}
	}
}

func extractPnft(st sdk.KVStore, ex *Extracted) {
	kvs := DumpStore(st)
	classes := map[string]bool{}
	supply := map[string]uint64{}
	nftCount := map[string]uint64{}
	type tok struct{ class, id string }
	var toks []tok
	ownerOf := map[string][]byte{}  // raw owner-key suffix -> owner bytes
	ownerIdx := map[string]bool{}   // raw 0x03 keys
	nftRawKeys := map[string]bool{} // raw 0x02 key suffixes
	for _, kv := range kvs {
		if len(kv.K) == 0 {
			continue
		}
		switch kv.K[0] {
		case 0x01:
			var c nft.Class
			if c.Unmarshal(kv.V) != nil {
				ex.prob("C12", "pnft.store.badentry", "", "class entry %x", kv.K)
				continue
			}
			var meta pnfttypes.DenomMeta
			if c.Data == nil || meta.Unmarshal(c.Data.Value) != nil {
				ex.prob("C12", "pnft.store.badentry", c.Id, "class %q has undecodable metadata", c.Id)
				continue
			}
			if string(kv.K[1:]) != c.Id {
				ex.prob("C12", "pnft.store.keyvalue", c.Id, "class key %x holds class id %q", kv.K, c.Id)
			}
			classes[c.Id] = true
			ex.M.Denoms[c.Id] = &DenomM{Id: c.Id, Name: c.Name, Symbol: c.Symbol, Description: c.Description, Uri: c.Uri, UriHash: c.UriHash, Data: meta.Data, Owner: meta.Owner}
			ex.Flat["pnft/denom/"+hex.EncodeToString([]byte(c.Id))] = fmt.Sprintf("name=%x;sym=%x;desc=%x;uri=%x;hash=%x;data=%x;owner=%s", c.Name, c.Symbol, c.Description, c.Uri, c.UriHash, meta.Data, meta.Owner)
			ex.NDenoms++
			ex.Stored = append(ex.Stored, StoredField{"denom_id", c.Id}, StoredField{"denom_name", c.Name}, StoredField{"denom_symbol", c.Symbol}, StoredField{"actor", meta.Owner})
		case 0x02:
			var n nft.NFT
			if n.Unmarshal(kv.V) != nil {
				ex.prob("C12", "pnft.store.badentry", "", "nft entry %x", kv.K)
				continue
			}
			want := append(append([]byte(n.ClassId), 0), []byte(n.Id)...)
			if !bytes.Equal(kv.K[1:], want) {
				ex.prob("C12", "pnft.store.keyvalue", n.ClassId, "nft key %x holds (%q,%q)", kv.K, n.ClassId, n.Id)
			}
			nftRawKeys[string(kv.K[1:])] = true
			toks = append(toks, tok{n.ClassId, n.Id})
			nftCount[n.ClassId]++
			var meta pnfttypes.PNFTMeta
			if n.Data == nil || meta.Unmarshal(n.Data.Value) != nil {
				ex.prob("C12", "pnft.store.badentry", n.ClassId, "token (%q,%q) has undecodable metadata", n.ClassId, n.Id)
				continue
			}
			ex.Flat["pnft/token/"+hex.EncodeToString([]byte(n.ClassId))+"/"+hex.EncodeToString([]byte(n.Id))] =
				fmt.Sprintf("name=%x;desc=%x;uri=%x;hash=%x;data=%x;creator=%s;at=%d;owner=?", meta.Name, meta.Description, n.Uri, n.UriHash, meta.Data, meta.Creator, meta.CreatedAt.UnixNano())
			ex.NTokens++
			if ex.M.Tokens[n.ClassId] == nil {
				ex.M.Tokens[n.ClassId] = map[string]*TokenM{}
			}
			ex.M.Tokens[n.ClassId][n.Id] = &TokenM{DenomId: n.ClassId, Id: n.Id, Name: meta.Name, Description: meta.Description, Uri: n.Uri, UriHash: n.UriHash, Data: meta.Data, Creator: meta.Creator, CreatedAt: meta.CreatedAt.UTC()}
			ex.Stored = append(ex.Stored, StoredField{"token_denom", n.ClassId}, StoredField{"token_id", n.Id}, StoredField{"token_name", meta.Name}, StoredField{"actor", meta.Creator})
		case 0x03:
			ownerIdx[string(kv.K[1:])] = true
		case 0x04:
			ownerOf[string(kv.K[1:])] = kv.V
		case 0x05:
			if len(kv.V) == 8 {
				supply[string(kv.K[1:])] = binary.BigEndian.Uint64(kv.V)
			}
		default:
			ex.UnknownKeys++
		}
	}
	sort.Slice(toks, func(i, j int) bool {
		if toks[i].class != toks[j].class {
			return toks[i].class < toks[j].class
		}
		return toks[i].id < toks[j].id
	})
	usedIdx := map[string]bool{}
	for _, t := range toks {
		fk := "pnft/token/" + hex.EncodeToString([]byte(t.class)) + "/" + hex.EncodeToString([]byte(t.id))
		if !classes[t.class] {
			ex.prob("C12", "pnft.orphan_token", t.class, "token (%q,%q) exists but its denom does not", t.class, t.id)
		}
		raw := string(append(append([]byte(t.class), 0), []byte(t.id)...))
		ob, ok := ownerOf[raw]
		if !ok {
			ex.prob("C12", "pnft.index.owner_missing", t.class, "token (%q,%q) has no owner entry", t.class, t.id)
			continue
		}
		if v, ok := ex.Flat[fk]; ok {
			ex.Flat[fk] = v[:len(v)-1] + sdk.AccAddress(ob).String()
		}
		if tm := ex.M.Tokens[t.class][t.id]; tm != nil {
			tm.Owner = sdk.AccAddress(ob).String()
		}
		ik := string(append(append(append([]byte{byte(len(ob))}, ob...), 0), []byte(raw)...))
		if !ownerIdx[ik] {
			ex.prob("C12", "pnft.index.byowner_missing", t.class, "token (%q,%q) is missing from its owner's index", t.class, t.id)
		}
		usedIdx[ik] = true
	}
	if len(ownerIdx) != len(usedIdx) {
		ex.prob("C12", "pnft.index.byowner_extra", "", "owner index holds %d entries for %d tokens", len(ownerIdx), len(usedIdx))
	}
	if len(ownerOf) != len(toks) {
		ex.prob("C12", "pnft.index.owner_extra", "", "owner table holds %d entries for %d tokens", len(ownerOf), len(toks))
	}
	cs := map[string]bool{}
	for c := range supply {
		cs[c] = true
	}
	for c := range nftCount {
		cs[c] = true
	}
	csl := make([]string, 0, len(cs))
	for c := range cs {
		csl = append(csl, c)
	}
	sort.Strings(csl)
	for _, c := range csl {
		if supply[c] != nftCount[c] {
			ex.prob("C12", "pnft.supply", c, "denom %q: total supply %d but %d tokens stored", c, supply[c], nftCount[c])
		}
	}
}
