package main

import (
	"bytes"
	"fmt"
	"reflect"
	"unicode/utf8"

	"github.com/cosmos/cosmos-sdk/codec"
	sdk "github.com/cosmos/cosmos-sdk/types"
	didtypes "github.com/medibloc/panacea-core/v2/x/did/types"
)

// fieldCoverage (C14): for a custom message m, every field must be covered by the bytes an account signs in
// legacy amino-JSON mode: changing any single field must change GetSignBytes(). (In the two direct modes the sign
// doc carries the full protobuf body, which the SDK guarantees to be injective.)
// Returns the names of fields whose change leaves the sign bytes untouched.
func uncoveredFields(m sdk.Msg) (out []string) {
	defer func() { recover() }() // messages whose GetSignBytes panics are C17's business
	lm, ok := m.(interface{ GetSignBytes() []byte })
	if !ok {
		return nil
	}
	base := lm.GetSignBytes()
	baseCopy := append([]byte(nil), base...)
	rv := reflect.ValueOf(m)
	if rv.Kind() != reflect.Ptr || rv.Elem().Kind() != reflect.Struct {
		return nil
	}
	t := rv.Elem().Type()
	for i := 0; i < t.NumField(); i++ {
		f := t.Field(i)
		if f.PkgPath != "" || len(f.Name) > 3 && f.Name[:4] == "XXX_" {
			continue
		}
		cp := reflect.New(t)
		cp.Elem().Set(rv.Elem())
		fv := cp.Elem().Field(i)
		switch fv.Kind() {
		case reflect.String:
			fv.SetString(fv.String() + "x")
		case reflect.Slice:
			if fv.Type().Elem().Kind() != reflect.Uint8 {
				continue
			}
			fv.SetBytes(append(append([]byte(nil), fv.Bytes()...), 1))
		case reflect.Ptr:
			doc, ok := fv.Interface().(*didtypes.DIDDocument)
			if !ok || doc == nil {
				continue
			}
			nd := cloneDoc(doc)
			nd.Id = nd.Id + "x"
			fv.Set(reflect.ValueOf(nd))
		default:
			continue
		}
		var vb []byte
		func() {
			defer func() { recover() }()
			vb = cp.Interface().(interface{ GetSignBytes() []byte }).GetSignBytes()
		}()
		if !bytes.Equal(base, baseCopy) {
			// the bytes returned for m changed when another message's sign bytes were computed
			out = append(out, "<returned slice is overwritten by the next GetSignBytes call>")
			return out
		}
		if vb != nil && bytes.Equal(vb, base) {
			out = append(out, f.Name)
		}
	}
	return out
}

func (e *Exec) checkFieldCoverage(m sdk.Msg) {
	e.Stats.Inc("signbytes.field_coverage_probes")
	if fs := uncoveredFields(m); len(fs) > 0 {
		e.viol("C14", "signbytes.field_not_covered", sdk.MsgTypeURL(m), "changing field(s) %v of %s does not change the legacy amino-JSON sign bytes: a signature for one value validates the other: %s", fs, sdk.MsgTypeURL(m), msgJSON(e.Env, m))
	}
}

var _ = fmt.Sprint

var faithAmino = codec.NewLegacyAmino()

// signBytesFaithful (C14): the legacy amino-JSON bytes a message contributes to the sign document must determine the
// message - decoding them into a value of the same type gives the message back. This is a witness of injectivity that
// needs no second message: an encoding that drops, shortens, digests or re-interprets part of a field fails it.
// Returns "" when faithful, "undecodable: ..." when the bytes cannot be decoded at all (not judged), or a description
// of the difference.
func signBytesFaithful(m sdk.Msg) (verdict string) {
	defer func() {
		if r := recover(); r != nil {
			verdict = fmt.Sprintf("undecodable: panic %v", r)
		}
	}()
	lm, ok := m.(interface{ GetSignBytes() []byte })
	if !ok {
		return ""
	}
	pm, ok := m.(interface{ Marshal() ([]byte, error) })
	if !ok {
		return ""
	}
	if !allStringsUTF8(reflect.ValueOf(m), 0) {
		// a JSON document cannot carry strings that are not valid UTF-8 (every encoder replaces the offending bytes):
		// a limit of the legacy sign mode itself, shared by every SDK message, not judged here
		return "undecodable: message carries strings that are not valid UTF-8"
	}
	raw := lm.GetSignBytes()
	rv := reflect.ValueOf(m)
	if rv.Kind() != reflect.Ptr || rv.Elem().Kind() != reflect.Struct {
		return ""
	}
	back := reflect.New(rv.Elem().Type())
	if err := faithAmino.UnmarshalJSON(raw, back.Interface()); err != nil {
		return "undecodable: " + err.Error()
	}
	want, err1 := pm.Marshal()
	got, err2 := back.Interface().(interface{ Marshal() ([]byte, error) }).Marshal()
	if err1 != nil || err2 != nil {
		return "undecodable: marshal"
	}
	if !bytes.Equal(want, got) {
		if alt, ok := withoutEmptyController(m); ok {
			if ab, err := alt.(interface{ Marshal() ([]byte, error) }).Marshal(); err == nil && bytes.Equal(ab, got) {
				// the only difference: the document's controller list is present with zero entries in the message and
				// absent in what the sign bytes decode to (finding F16, judged on its own)
				return fmt.Sprintf("empty-controller: a document whose controller list is present with zero entries and the same document without the list share their sign bytes: %s", trunc(string(raw), 400))
			}
		}
		return fmt.Sprintf("decoding the sign bytes gives another message: sign bytes %s", trunc(string(raw), 400))
	}
	return ""
}

// withoutEmptyController: a copy of a DID create/update message in which a controller list that is present and lists
// nothing is removed; ok=false when the message is of another type or carries no such list.
func withoutEmptyController(m sdk.Msg) (sdk.Msg, bool) {
	strip := func(d *didtypes.DIDDocument) (*didtypes.DIDDocument, bool) {
		if d == nil || d.Controller == nil || len(*d.Controller) != 0 {
			return nil, false
		}
		nd := cloneDoc(d)
		nd.Controller = nil
		return nd, true
	}
	switch v := m.(type) {
	case *didtypes.MsgCreateDIDRequest:
		if nd, ok := strip(v.Document); ok {
			cp := *v
			cp.Document = nd
			return &cp, true
		}
	case *didtypes.MsgUpdateDIDRequest:
		if nd, ok := strip(v.Document); ok {
			cp := *v
			cp.Document = nd
			return &cp, true
		}
	}
	return nil, false
}

func allStringsUTF8(v reflect.Value, depth int) bool {
	if depth > 12 {
		return true
	}
	switch v.Kind() {
	case reflect.String:
		return utf8.ValidString(v.String())
	case reflect.Ptr, reflect.Interface:
		if v.IsNil() {
			return true
		}
		return allStringsUTF8(v.Elem(), depth+1)
	case reflect.Struct:
		for i := 0; i < v.NumField(); i++ {
			if v.Type().Field(i).PkgPath != "" {
				continue
			}
			if !allStringsUTF8(v.Field(i), depth+1) {
				return false
			}
		}
	case reflect.Slice, reflect.Array:
		if v.Type().Elem().Kind() == reflect.Uint8 {
			return true
		}
		for i := 0; i < v.Len(); i++ {
			if !allStringsUTF8(v.Index(i), depth+1) {
				return false
			}
		}
	}
	return true
}

// probeDidSeqBinding (C04): the data a DID proof is made over binds it to one sequence number. A proof made over sequence s
// must verify at s (and yield s+1 as the next sequence) and at no other sequence - whatever s is: small, around the byte,
// two-byte and four-byte boundaries, beyond 2^32 and 2^63. (The replay this prevents would take hundreds of accepted
// updates of one DID to show up in a run: the binding itself is checked directly, through the module's own Sign/Verify.)
func (e *Exec) probeDidSeqBinding() {
	seqs := []uint64{0, 1, 2, 127, 128, 129, 255, 256, 257, 383, 511, 512, 16383, 16384, 65535, 65536, 65537, 1<<31 - 1, 1 << 31, 1<<32 - 1, 1 << 32, 1<<32 + 1, 1<<63 - 1, 1 << 63, 1<<64 - 1}
	key := e.Env.DidKeys[int(e.S.Seed%uint64(len(e.Env.DidKeys)))]
	did := e.Env.Dids[int(e.S.Seed%uint64(len(e.Env.Dids)))]
	docs := []*didtypes.DIDDocument{{Id: did}, e.Env.BuildDoc(&DocSpec{Id: did, VMs: []VMSpec{{Id: did + "#key1", Type: "EcdsaSecp256k1VerificationKey2019", Controller: did, Key: 0}}, Auth: []RelSpec{{Ref: did + "#key1"}}})}
	for _, doc := range docs {
		for _, s := range seqs {
			sig, err := didtypes.Sign(doc, s, key)
			if err != nil {
				continue
			}
			for _, s2 := range seqs {
				next, ok := didtypes.Verify(sig, doc, s2, key.PubKey())
				switch {
				case s2 == s && !ok:
					e.viol("C04", "proof.sequence_binding", "", "a DID proof made over sequence %d does not verify at sequence %d", s, s2)
					return
				case s2 == s && s != 1<<64-1 && next != s+1:
					e.viol("C04", "proof.sequence_binding", "", "verifying a DID proof at sequence %d yields %d as the next sequence, not %d", s, next, s+1)
					return
				case s2 != s && ok:
					e.viol("C04", "proof.sequence_binding", "", "a DID proof made over sequence %d also verifies at sequence %d: once accepted, it is acceptable again when the sequence gets there", s, s2)
					return
				}
			}
		}
	}
	e.Stats.Inc("probe.did_sequence_binding")
}
