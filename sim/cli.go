package main

import (
	"bufio"
	"encoding/json"
	"flag"
	"fmt"
	"os"
	"os/exec"
	"path/filepath"
	"runtime"
	"runtime/pprof"
	"sort"
	"strconv"
	"strings"
	"sync"
	"time"
)

const verifDir = "/verif"

// outDir: where evidence and replay files go. Always /verif for the registered checks; redirected only
// when the machinery itself is being tested against a seeded change in a scratch worktree.
func outDir() string {
	if d := os.Getenv("PANASIM_OUTPUT_DIR"); d != "" {
		return d
	}
	return verifDir
}

func envSeed() uint64 {
	if s := os.Getenv("VERIF_SEED"); s != "" {
		if v, err := strconv.ParseUint(s, 10, 64); err == nil {
			return v
		}
		if v, err := strconv.ParseInt(s, 10, 64); err == nil {
			return uint64(v)
		}
	}
	return 20261003
}

// RunResult is what a worker reports for one simulated run (one JSON line).
type RunResult struct {
	Seed       uint64           `json:"seed"`
	Prop       string           `json:"prop"`
	Trace      string           `json:"trace"`
	Blocks     int              `json:"blocks"`
	Steps      int              `json:"steps"`
	SimTimeS   float64          `json:"sim_time_s"`
	WallMs     int64            `json:"wall_ms"`
	Stats      map[string]int64 `json:"stats"`
	Violations []*Violation     `json:"violations,omitempty"`
	Known      []string         `json:"known,omitempty"`
	Foreign    []string         `json:"foreign,omitempty"`
	ScriptPath string           `json:"script_path,omitempty"`
	Sample     json.RawMessage  `json:"sample,omitempty"`
	Err        string           `json:"err,omitempty"`
	FinalState string           `json:"final_state,omitempty"` // hash of the custom-module state after the last block
	Earlier    []uint64         `json:"earlier_seeds,omitempty"` // seeds this worker process ran before (set on violation)
}

func runSeed(seed uint64, prop, tier string, env *Env, known *KnownFindings, scratch, tracePath string) (*Exec, *Script) {
	s := GenerateScript(seed, prop, tier, env)
	e := runScript(s, env, known, scratch, tracePath)
	return e, s
}

func runScript(s *Script, env *Env, known *KnownFindings, scratch, tracePath string) *Exec {
	dir, err := os.MkdirTemp(scratch, "run")
	if err != nil {
		panic(err)
	}
	defer os.RemoveAll(dir)
	e := NewExec(s, env, dir, known, tracePath)
	e.Run()
	return e
}

func scriptSummary(s *Script) json.RawMessage {
	kinds := map[string]int{}
	var firstTx []string
	for i := range s.Steps {
		st := &s.Steps[i]
		kinds[st.K]++
		if st.K == "tx" && st.Tx != nil && len(firstTx) < 12 {
			var ts []string
			for _, m := range st.Tx.Msgs {
				ts = append(ts, m.T)
			}
			d := strings.Join(ts, "+")
			if st.Tx.SignOver != nil {
				d += "[tampered]"
			}
			if st.Tx.ReplayOf != 0 {
				d = fmt.Sprintf("replay-bytes-of-%d", st.Tx.ReplayOf)
			}
			if st.Tx.Signers != nil {
				d += fmt.Sprintf("[signed-by %v]", st.Tx.Signers)
			}
			firstTx = append(firstTx, d)
		}
		if (st.K == "crash" || st.K == "lag" || st.K == "bootstrap" || st.K == "upgrade" || st.K == "reconfig") && len(firstTx) < 12 {
			d := st.K
			if st.At != nil {
				d += fmt.Sprintf("(replica %d at %s/%d %s)", st.Replica, st.At.Kind, st.At.N, st.At.Loss)
			}
			firstTx = append(firstTx, d)
		}
	}
	bz, _ := json.Marshal(map[string]interface{}{"seed": s.Seed, "replicas": s.Config.Replicas, "step_kinds": kinds, "first_steps": firstTx,
		"seeded_genesis": s.Config.Genesis.Aol != nil, "genesis_time": s.Config.Genesis.TimeUnix})
	return bz
}

func workerMain(args []string) int {
	fs := flag.NewFlagSet("worker", flag.ExitOnError)
	prop := fs.String("prop", "", "property id")
	tier := fs.String("tier", "quick", "tier")
	base := fs.Uint64("base", 1, "seed base")
	start := fs.Int("start", 0, "first index")
	stride := fs.Int("stride", 1, "index stride")
	count := fs.Int("count", 1<<30, "max runs")
	budget := fs.Float64("budget", 30, "wall-clock budget in seconds")
	scratch := fs.String("scratch", os.TempDir(), "scratch dir")
	_ = fs.Parse(args)
	env := NewEnv()
	known := LoadKnown(filepath.Join(verifDir, "known_findings.json"))
	out := bufio.NewWriter(os.Stdout)
	defer out.Flush()
	t0 := time.Now()
	n := 0
	var ranSeeds []uint64
	for i := *start; n < *count; i += *stride {
		if time.Since(t0).Seconds() > *budget && n > 0 {
			break
		}
		seed := *base*1_000_003 + uint64(i)
		rr := oneRun(seed, *prop, *tier, env, known, *scratch, n == 0)
		if len(rr.Violations) > 0 {
			rr.Earlier = append([]uint64(nil), ranSeeds...)
		}
		ranSeeds = append(ranSeeds, seed)
		bz, _ := json.Marshal(rr)
		out.Write(bz)
		out.WriteByte('\n')
		out.Flush()
		n++
		if len(rr.Violations) > 0 {
			break // the driver minimises and reports; further runs of this worker would only repeat it
		}
	}
	return 0
}

func oneRun(seed uint64, prop, tier string, env *Env, known *KnownFindings, scratch string, wantSample bool) (rr *RunResult) {
	rr = &RunResult{Seed: seed, Prop: prop}
	t0 := time.Now()
	var s *Script
	defer func() {
		if r := recover(); r != nil {
			rr.Err = fmt.Sprintf("harness panic: %v [%s]", r, shortStack())
			if s != nil {
				p := filepath.Join(scratch, fmt.Sprintf("harness-panic-%s-%d.json", prop, seed))
				bz, _ := json.Marshal(s)
				_ = os.WriteFile(p, bz, 0o644)
				rr.ScriptPath = p
			}
		}
	}()
	s = GenerateScript(seed, prop, tier, env)
	e := runScript(s, env, known, scratch, "")
	rr.Trace = e.Trace.Sum()
	rr.Blocks = len(e.Blocks)
	if n := len(e.Blocks); n > 0 {
		rr.FinalState = e.Blocks[n-1].FlatHash
	}
	rr.Steps = len(s.Steps)
	rr.SimTimeS = e.simTime.Seconds()
	rr.WallMs = time.Since(t0).Milliseconds()
	rr.Stats = e.Stats.C
	rr.Violations = e.Viol
	rr.Known = e.KnownHits
	for _, f := range e.Foreign {
		rr.Foreign = append(rr.Foreign, f.Property+":"+f.Class)
	}
	if wantSample {
		rr.Sample = scriptSummary(s)
	}
	if len(e.Viol) > 0 {
		p := filepath.Join(scratch, fmt.Sprintf("viol-%s-%d.json", prop, seed))
		s.Violation = e.Viol[0]
		s.TraceHash = rr.Trace
		bz, _ := json.MarshalIndent(s, "", " ")
		_ = os.WriteFile(p, bz, 0o644)
		rr.ScriptPath = p
	}
	return rr
}

// ---------------------------------------------------------------------------------------------
// check driver

type tierCfg struct {
	BudgetS float64
	Workers int
}

func tierOf(prop, tier string) tierCfg {
	w := runtime.NumCPU()
	if w > 16 {
		w = 16
	}
	if w < 2 {
		w = 2
	}
	if v := int(envFloat("VERIF_WORKERS", 0)); v >= 1 && v <= 64 {
		w = v
	}
	if tier == "thorough" {
		return tierCfg{BudgetS: envFloat("VERIF_THOROUGH_S", 900), Workers: w}
	}
	return tierCfg{BudgetS: envFloat("VERIF_QUICK_S", 40), Workers: w}
}

func envFloat(k string, d float64) float64 {
	if s := os.Getenv(k); s != "" {
		if v, err := strconv.ParseFloat(s, 64); err == nil {
			return v
		}
	}
	return d
}

func checkMain(args []string) int {
	if len(args) < 1 {
		fmt.Fprintln(os.Stderr, "usage: panasim check <PROP> [quick|thorough]")
		return 2
	}
	prop := args[0]
	tier := "quick"
	if len(args) > 1 {
		tier = args[1]
	}
	if t := os.Getenv("VERIF_TIER"); t != "" && len(args) < 2 {
		tier = t
	}
	if prop == "C20" {
		return checkC20(tier)
	}
	if prop == "C19" {
		return checkChain(prop, tier, []extraPart{descriptorPart})
	}
	if prop == "C17" {
		return checkChain(prop, tier, []extraPart{ksPart("C17")})
	}
	return checkChain(prop, tier, nil)
}

// extraPart: additional engines contributing to one property's check (C20, C17): coverage section, number of
// violations found, exit code (0/1/2).
type extraPart func(seed uint64, tier string, scratch string) (cov map[string]interface{}, nviol int, exit int)

func checkChain(prop, tier string, extras []extraPart) int {
	seed := envSeed()
	fmt.Printf("panasim check property=%s tier=%s VERIF_SEED=%d\n", prop, tier, seed)
	tc := tierOf(prop, tier)
	t0 := time.Now()
	scratch, err := os.MkdirTemp("", "panasim-"+prop+"-")
	if err != nil {
		fmt.Println("cannot create scratch:", err)
		return 2
	}
	defer os.RemoveAll(scratch)
	self, _ := os.Executable()
	var mu sync.Mutex
	var results []*RunResult
	var wg sync.WaitGroup
	workerTrouble := ""
	for w := 0; w < tc.Workers; w++ {
		wg.Add(1)
		go func(w int) {
			defer wg.Done()
			cmd := exec.Command(self, "worker", "--prop", prop, "--tier", tier, "--base", fmt.Sprint(seed), "--start", fmt.Sprint(w), "--stride", fmt.Sprint(tc.Workers),
				"--budget", fmt.Sprint(tc.BudgetS), "--scratch", scratch)
			gmp := []string{"1", "4", "16"}[w%3]
			cmd.Env = append(os.Environ(), "GOMAXPROCS="+gmp)
			var stderr strings.Builder
			cmd.Stderr = &stderr
			outp, err := cmd.StdoutPipe()
			if err != nil {
				mu.Lock()
				workerTrouble = err.Error()
				mu.Unlock()
				return
			}
			if err := cmd.Start(); err != nil {
				mu.Lock()
				workerTrouble = err.Error()
				mu.Unlock()
				return
			}
			sc := bufio.NewScanner(outp)
			sc.Buffer(make([]byte, 1<<20), 1<<26)
			for sc.Scan() {
				var rr RunResult
				if err := json.Unmarshal(sc.Bytes(), &rr); err == nil {
					mu.Lock()
					results = append(results, &rr)
					mu.Unlock()
				}
			}
			if err := cmd.Wait(); err != nil {
				mu.Lock()
				workerTrouble = fmt.Sprintf("worker %d exited abnormally: %v; stderr tail: %s", w, err, tail(stderr.String(), 1500))
				mu.Unlock()
			}
		}(w)
	}
	wg.Wait()
	sort.Slice(results, func(i, j int) bool { return results[i].Seed < results[j].Seed })
	if workerTrouble != "" {
		fmt.Println("MACHINERY-TROUBLE:", workerTrouble)
		return 2
	}
	for _, r := range results {
		if r.Err != "" {
			fmt.Printf("MACHINERY-TROUBLE: run seed=%d: %s (script: %s)\n", r.Seed, r.Err, r.ScriptPath)
			if r.ScriptPath != "" {
				keep := filepath.Join(outDir(), "replays", filepath.Base(r.ScriptPath))
				_ = os.MkdirAll(filepath.Dir(keep), 0o755)
				bz, _ := os.ReadFile(r.ScriptPath)
				_ = os.WriteFile(keep, bz, 0o644)
			}
			return 2
		}
	}
	if len(results) == 0 {
		fmt.Println("MACHINERY-TROUBLE: no runs completed")
		return 2
	}
	// known findings
	knownSeen := map[string]bool{}
	for _, r := range results {
		for _, k := range r.Known {
			if !knownSeen[k] {
				knownSeen[k] = true
				fmt.Println("KNOWN-FINDING: " + k)
			}
		}
	}
	// violations: minimise the first (lowest seed), confirm in a fresh process
	exit := 0
	nviol := 0
	var reported []string
	seenClass := map[string]bool{}
	env := (*Env)(nil)
	for _, r := range results {
		if len(r.Violations) == 0 {
			continue
		}
		nviol++
		v := r.Violations[0]
		ck := v.Property + "|" + v.Class
		if seenClass[ck] || len(reported) >= 3 {
			continue
		}
		seenClass[ck] = true
		if env == nil {
			env = NewEnv()
		}
		path, code := minimiseAndConfirm(r, env, scratch)
		if code == 2 {
			fmt.Printf("MACHINERY-TROUBLE: violation of %s (class %s, seed %d) does not replay deterministically; script kept at %s\n", v.Property, v.Class, r.Seed, path)
			exit = 2
			continue
		}
		fmt.Printf("violation: property=%s class=%s seed=%d: %s\n", v.Property, v.Class, r.Seed, trunc(v.Detail, 700))
		fmt.Printf("VIOLATION property=%s replay=%s\n", v.Property, path)
		reported = append(reported, path)
		if exit == 0 {
			exit = 1
		}
	}
	extraCov := map[string]interface{}{}
	for _, x := range extras {
		cov, nv, xc := x(seed, tier, scratch)
		for k, v := range cov {
			extraCov[k] = v
		}
		nviol += nv
		if xc == 2 || (xc == 1 && exit == 0) {
			exit = xc
		}
	}
	wall := time.Since(t0).Seconds()
	if err := writeEvidence(prop, tier, seed, results, nviol, wall, tc, extraCov); err != nil {
		fmt.Println("MACHINERY-TROUBLE: cannot write evidence:", err)
		return 2
	}
	fmt.Printf("runs=%d violations=%d wall=%.1fs\n", len(results), nviol, wall)
	return exit
}

func tail(s string, n int) string {
	if len(s) <= n {
		return s
	}
	return s[len(s)-n:]
}

// ---------------------------------------------------------------------------------------------
// minimisation and replay

func sameClass(e *Exec, v *Violation) bool {
	for _, x := range e.Viol {
		if x.Property == v.Property && x.Class == v.Class {
			return true
		}
	}
	return false
}

func minimiseAndConfirm(r *RunResult, env *Env, scratch string) (string, int) {
	bz, err := os.ReadFile(r.ScriptPath)
	if err != nil {
		return r.ScriptPath, 2
	}
	var s Script
	if err := json.Unmarshal(bz, &s); err != nil {
		return r.ScriptPath, 2
	}
	known := LoadKnown(filepath.Join(verifDir, "known_findings.json"))
	target := s.Violation
	try := func(steps []Step, cfg RunConfig) (*Exec, bool) {
		c := s
		c.Steps = steps
		c.Config = cfg
		c.Violation = nil
		var e *Exec
		ok := false
		func() {
			defer func() { recover() }()
			e = runScript(&c, env, known, scratch, "")
			ok = sameClass(e, target)
		}()
		return e, ok
	}
	steps := s.Steps
	cfg := s.Config
	deadline := time.Now().Add(time.Duration(envFloat("VERIF_MINIMISE_S", 90)) * time.Second)
	tries := 0
	// truncate after the violating step first
	if target.AtStep+1 < len(steps) {
		cand := append([]Step(nil), steps[:target.AtStep+1]...)
		if cand[len(cand)-1].K != "block" {
			cand = append(cand, Step{K: "block"})
		}
		c2 := cfg
		c2.EpilogueOff = true
		if _, ok := try(cand, c2); ok {
			steps, cfg = cand, c2
		}
	}
	if _, ok := try(steps, withEpilogueOff(cfg)); ok {
		cfg = withEpilogueOff(cfg)
	}
	// ddmin
	n := 2
	for len(steps) >= 2 && time.Now().Before(deadline) && tries < 400 {
		chunk := (len(steps) + n - 1) / n
		reduced := false
		for i := 0; i < len(steps); i += chunk {
			end := i + chunk
			if end > len(steps) {
				end = len(steps)
			}
			cand := append(append([]Step(nil), steps[:i]...), steps[end:]...)
			if len(cand) == 0 {
				continue
			}
			tries++
			if _, ok := try(cand, cfg); ok {
				steps = cand
				if n > 2 {
					n--
				}
				reduced = true
				break
			}
			if time.Now().After(deadline) || tries >= 400 {
				break
			}
		}
		if !reduced {
			if chunk <= 1 {
				break
			}
			n *= 2
			if n > len(steps) {
				n = len(steps)
			}
		}
	}
	// simplifications: fewer replicas, no seeded genesis, no mid-block tasks
	for len(cfg.Replicas) > 1 && time.Now().Before(deadline) {
		c2 := cfg
		c2.Replicas = cfg.Replicas[:len(cfg.Replicas)-1]
		if _, ok := try(steps, c2); ok {
			cfg = c2
		} else {
			break
		}
	}
	for _, f := range []func(c *RunConfig){
		func(c *RunConfig) { c.Genesis.Aol, c.Genesis.Did, c.Genesis.Pnft = nil, nil, nil },
		func(c *RunConfig) { c.MidBlockRate = 0 },
		func(c *RunConfig) { c.CrashEnum = 0 },
		func(c *RunConfig) { c.Genesis.ExtraDenoms = nil },
	} {
		if time.Now().After(deadline) {
			break
		}
		c2 := cfg
		f(&c2)
		if _, ok := try(steps, c2); ok {
			cfg = c2
		}
	}
	// final execution to record the violation and trace hash of the minimised script
	final := s
	final.Steps, final.Config, final.Violation = steps, cfg, nil
	e := runScript(&final, env, known, scratch, "")
	if !sameClass(e, target) {
		// fall back to the original script
		final = s
		final.Violation = nil
		e = runScript(&final, env, known, scratch, "")
		if !sameClass(e, target) {
			// not even the original script shows it in this process: the violation may depend on what the worker process had
			// executed before (state that outlives a run). The faithful replay is then the worker's whole history.
			if len(r.Earlier) > 0 {
				orig := s
				orig.Violation = target
				orig.TraceHash = ""
				orig.Prelude = r.Earlier
				_ = os.MkdirAll(filepath.Join(outDir(), "replays"), 0o755)
				path := filepath.Join(outDir(), "replays", fmt.Sprintf("%s-%d-%s.json", target.Property, s.Seed, sanitize(target.Class)))
				ob, _ := json.MarshalIndent(&orig, "", " ")
				if err := os.WriteFile(path, ob, 0o644); err == nil {
					self, _ := os.Executable()
					for i := 0; i < 3; i++ {
						outb, err := exec.Command(self, "replay", path).CombinedOutput()
						if ee, ok := err.(*exec.ExitError); ok && ee.ExitCode() == 1 && (strings.Contains(string(outb), "REPLAY-OK") || strings.Contains(string(outb), "REPLAY-SAME-CLASS")) {
							fmt.Printf("note: the violation reproduces in a fresh process only after the %d runs the worker had executed before it: it depends on process-global state that outlives a request\n", len(r.Earlier))
							return path, 1
						}
					}
				}
			}
			// last resort: the implementation itself may be nondeterministic on this script (map iteration order reaching a
			// result): several fresh-process replays of the original script; any that shows the same class confirms it
			orig := s
			orig.Violation = target
			orig.TraceHash = ""
			_ = os.MkdirAll(filepath.Join(outDir(), "replays"), 0o755)
			path := filepath.Join(outDir(), "replays", fmt.Sprintf("%s-%d-%s.json", target.Property, s.Seed, sanitize(target.Class)))
			ob, _ := json.MarshalIndent(&orig, "", " ")
			if err := os.WriteFile(path, ob, 0o644); err == nil {
				self, _ := os.Executable()
				hits := 0
				for i := 0; i < 6; i++ {
					outb, err := exec.Command(self, "replay", path).CombinedOutput()
					if ee, ok := err.(*exec.ExitError); ok && ee.ExitCode() == 1 && (strings.Contains(string(outb), "REPLAY-OK") || strings.Contains(string(outb), "REPLAY-SAME-CLASS")) {
						hits++
					}
				}
				if hits > 0 {
					fmt.Printf("note: %d of 6 fresh-process replays of the original script show the violation again, re-execution inside the checking process did not: the implementation is nondeterministic on this script\n", hits)
					return path, 1
				}
			}
			return r.ScriptPath, 2
		}
	}
	for _, x := range e.Viol {
		if x.Property == target.Property && x.Class == target.Class {
			final.Violation = x
			break
		}
	}
	final.TraceHash = e.Trace.Sum()
	_ = os.MkdirAll(filepath.Join(outDir(), "replays"), 0o755)
	path := filepath.Join(outDir(), "replays", fmt.Sprintf("%s-%d-%s.json", target.Property, s.Seed, sanitize(target.Class)))
	out, _ := json.MarshalIndent(&final, "", " ")
	if err := os.WriteFile(path, out, 0o644); err != nil {
		return path, 2
	}
	fmt.Printf("minimised %d -> %d steps (%d candidate executions)\n", len(s.Steps), len(final.Steps), tries)
	// fresh-process confirmation; fallbacks: the unminimised script, then the unminimised script preceded by the
	// runs the worker process had executed before it (process-global state)
	confirmOnce := func(p string) (bool, bool, string) {
		self, _ := os.Executable()
		outb, err := exec.Command(self, "replay", p).CombinedOutput()
		code := 0
		if ee, ok := err.(*exec.ExitError); ok {
			code = ee.ExitCode()
		} else if err != nil {
			code = 2
		}
		exact := code == 1 && strings.Contains(string(outb), "REPLAY-OK")
		sameClass := code == 1 && (exact || strings.Contains(string(outb), "REPLAY-SAME-CLASS"))
		return exact, sameClass, tail(string(outb), 600)
	}
	// A violation that reproduces only in some fresh-process replays means the implementation itself behaves
	// nondeterministically on this script (e.g. Go map iteration order reaching state): it is still reported, with
	// the count, because the same script and seed then produce both outcomes.
	confirm := func(p string) (bool, string) {
		hits, last := 0, ""
		for i := 0; i < 4; i++ {
			exact, same, out := confirmOnce(p)
			last = out
			if exact {
				if i > 0 {
					fmt.Printf("note: the violation reproduced only in attempt %d of fresh-process replay: the implementation is nondeterministic on this script\n", i+1)
				}
				return true, out
			}
			if same {
				hits++
			}
		}
		if hits > 0 {
			fmt.Printf("note: %d of 4 fresh-process replays show the same violation class with a different trace: the implementation is nondeterministic on this script\n", hits)
			return true, last
		}
		return false, last
	}
	if ok, _ := confirm(path); ok {
		return path, 1
	}
	orig := s
	orig.Violation = target
	orig.TraceHash = ""
	ob, _ := json.MarshalIndent(&orig, "", " ")
	_ = os.WriteFile(path, ob, 0o644)
	if ok, _ := confirm(path); ok {
		fmt.Println("note: the minimised script did not reproduce in a fresh process; the unminimised script does and is reported")
		return path, 1
	}
	if len(r.Earlier) > 0 {
		orig.Prelude = r.Earlier
		ob, _ = json.MarshalIndent(&orig, "", " ")
		_ = os.WriteFile(path, ob, 0o644)
		if ok, _ := confirm(path); ok {
			fmt.Printf("note: the violation reproduces in a fresh process only after the %d runs the worker had executed before it: it depends on process-global state that outlives a request\n", len(r.Earlier))
			return path, 1
		}
	}
	_, lastOut := confirm(path)
	fmt.Printf("fresh-process replay did not reproduce: %s\n", lastOut)
	return path, 2
}

func withEpilogueOff(c RunConfig) RunConfig { c.EpilogueOff = true; return c }

func sanitize(s string) string {
	var b strings.Builder
	for _, c := range s {
		if c >= 'a' && c <= 'z' || c >= 'A' && c <= 'Z' || c >= '0' && c <= '9' || c == '_' || c == '-' {
			b.WriteRune(c)
		} else {
			b.WriteByte('_')
		}
	}
	return b.String()
}

func replayMain(args []string) int {
	if len(args) < 1 {
		fmt.Fprintln(os.Stderr, "usage: panasim replay <file> [--trace out]")
		return 2
	}
	bz, err := os.ReadFile(args[0])
	if err != nil {
		fmt.Println("cannot read replay file:", err)
		return 2
	}
	if strings.Contains(args[0], "ks-") || strings.Contains(string(bz[:min(len(bz), 200)]), `"engine": "ks"`) {
		return replayKS(bz)
	}
	if base := filepath.Base(args[0]); strings.HasPrefix(base, "race-C20-") {
		// the -race sub-check runs real goroutines: what is replayed is its seed (workload and query mix), up to three times;
		// a data race or a broken oracle in the code shows again, the interleaving that exposed it is not under control
		var seed uint64
		fmt.Sscanf(strings.TrimPrefix(base, "race-C20-"), "%d", &seed)
		scratch, err := os.MkdirTemp("", "panasim-racereplay-")
		if err != nil {
			return 2
		}
		defer os.RemoveAll(scratch)
		for i := 0; i < 3; i++ {
			_, nviol, code := racePart(seed, "quick", scratch)
			if code == 2 {
				return 2
			}
			if nviol > 0 {
				fmt.Println("REPLAY-SAME-CLASS (race sub-check, attempt", i+1, ")")
				return 1
			}
		}
		fmt.Println("REPLAY-NOT-REPRODUCED: three runs of the race sub-check with this seed showed nothing")
		return 0
	}
	var s Script
	if err := json.Unmarshal(bz, &s); err != nil {
		fmt.Println("bad replay file:", err)
		return 2
	}
	tracePath := ""
	if len(args) >= 3 && args[1] == "--trace" {
		tracePath = args[2]
	}
	want := s.Violation
	wantTrace := s.TraceHash
	s.Violation = nil
	env := NewEnv()
	scratch, _ := os.MkdirTemp("", "panasim-replay-")
	defer os.RemoveAll(scratch)
	for _, ps := range s.Prelude {
		func() {
			defer func() { recover() }()
			runScript(GenerateScript(ps, s.Property, s.Tier, env), env, LoadKnown(filepath.Join(verifDir, "known_findings.json")), scratch, "")
		}()
	}
	if len(s.Prelude) > 0 {
		fmt.Printf("prelude: re-executed %d earlier runs of the same worker process\n", len(s.Prelude))
	}
	e := runScript(&s, env, LoadKnown(filepath.Join(verifDir, "known_findings.json")), scratch, tracePath)
	fmt.Printf("replay seed=%d property=%s steps=%d blocks=%d trace=%s\n", s.Seed, s.Property, len(s.Steps), len(e.Blocks), e.Trace.Sum())
	for _, k := range e.KnownHits {
		fmt.Println("KNOWN-FINDING: " + k)
	}
	if len(e.Viol) == 0 {
		fmt.Println("no violation on this tree")
		if want != nil {
			fmt.Println("REPLAY-NOT-REPRODUCED (the recorded violation was: " + want.Class + ")")
		}
		return 0
	}
	v := e.Viol[0]
	if want != nil {
		for _, x := range e.Viol {
			if x.Property == want.Property && x.Class == want.Class {
				v = x
				break
			}
		}
	}
	fmt.Printf("violation: property=%s class=%s at_step=%d: %s\n", v.Property, v.Class, v.AtStep, v.Detail)
	if want != nil {
		if want.Property == v.Property && want.Class == v.Class && (wantTrace == "" || wantTrace == e.Trace.Sum()) {
			fmt.Println("REPLAY-OK (same violation class and identical trace hash)")
		} else if want.Property == v.Property && want.Class == v.Class {
			fmt.Println("REPLAY-SAME-CLASS (trace hash differs: the tree or the harness changed since the file was written)")
		} else {
			fmt.Println("REPLAY-DIFFERENT-VIOLATION")
		}
	}
	fmt.Printf("VIOLATION property=%s replay=%s\n", v.Property, args[0])
	return 1
}

func min(a, b int) int {
	if a < b {
		return a
	}
	return b
}

func runMain(args []string) int {
	fs := flag.NewFlagSet("run", flag.ExitOnError)
	prop := fs.String("prop", "ALL", "property")
	tier := fs.String("tier", "quick", "tier")
	seed := fs.Uint64("seed", 1, "seed")
	trace := fs.String("trace", "", "trace file")
	dump := fs.String("dump", "", "write the generated script here")
	prof := fs.String("cpuprofile", "", "write a CPU profile")
	_ = fs.Parse(args)
	if *prof != "" {
		f, _ := os.Create(*prof)
		_ = pprof.StartCPUProfile(f)
		defer pprof.StopCPUProfile()
	}
	env := NewEnv()
	scratch, _ := os.MkdirTemp("", "panasim-run-")
	defer os.RemoveAll(scratch)
	t0 := time.Now()
	s := GenerateScript(*seed, *prop, *tier, env)
	if *dump != "" {
		bz, _ := json.MarshalIndent(s, "", " ")
		_ = os.WriteFile(*dump, bz, 0o644)
	}
	e := runScript(s, env, LoadKnown(filepath.Join(verifDir, "known_findings.json")), scratch, *trace)
	fmt.Printf("seed=%d prop=%s steps=%d blocks=%d wall=%v trace=%s\n", *seed, *prop, len(s.Steps), len(e.Blocks), time.Since(t0), e.Trace.Sum())
	for _, v := range e.Viol {
		fmt.Printf("VIOL %s %s step=%d: %s\n", v.Property, v.Class, v.AtStep, v.Detail)
	}
	for _, v := range e.Foreign {
		fmt.Printf("FOREIGN %s %s: %s\n", v.Property, v.Class, trunc(v.Detail, 300))
	}
	for _, k := range e.KnownHits {
		fmt.Println("KNOWN", k)
	}
	ks := make([]string, 0, len(e.Stats.C))
	for k := range e.Stats.C {
		ks = append(ks, k)
	}
	sort.Strings(ks)
	for _, k := range ks {
		fmt.Printf("  %s=%d", k, e.Stats.C[k])
	}
	fmt.Println()
	if len(e.Viol) > 0 {
		return 1
	}
	return 0
}

func cliMain(args []string) int {
	switch args[0] {
	case "check":
		return checkMain(args[1:])
	case "worker":
		return workerMain(args[1:])
	case "replay":
		return replayMain(args[1:])
	case "run":
		return runMain(args[1:])
	case "selftest":
		return selftestMain(args[1:])
	case "ksworker":
		return ksWorkerMain(args[1:])
	case "racechild":
		return raceChildMain(args[1:])
	}
	fmt.Fprintln(os.Stderr, "unknown command", args[0])
	return 2
}
