package main

func cliMain(args []string) int { return 2 }
