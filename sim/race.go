package main

// C20 sub-check 3: real goroutines under the Go race detector (uncontrolled interleaving, seeded
// operation choice). Happens-before race detection is defeated by a serialising scheduler, so this part
// deliberately does not use one; its failures come with the race report / recorded answers, not with a
// replayable schedule.

import (
	pnfttypes "github.com/medibloc/panacea-core/v2/x/pnft/types"
	aoltypes "github.com/medibloc/panacea-core/v2/x/aol/types"
	"bytes"
	"crypto/sha256"
	"encoding/hex"
	"flag"
	"fmt"
	"os"
	"os/exec"
	"path/filepath"
	"regexp"
	"sort"
	"strings"
	"sync"
	"sync/atomic"
	"time"

	sdk "github.com/cosmos/cosmos-sdk/types"
	didtypes "github.com/medibloc/panacea-core/v2/x/did/types"
	abci "github.com/cometbft/cometbft/abci/types"
	didcrypto "github.com/medibloc/panacea-core/v2/x/did/client/crypto"
)

func racePart(seed uint64, tier string, scratch string) (map[string]interface{}, int, int) {
	if os.Getenv("PANASIM_SKIP_RACE") != "" { // development aid for mutcheck.sh (no -race build of the scratch tree)
		return map[string]interface{}{"race_subcheck": "skipped (PANASIM_SKIP_RACE)"}, 0, 0
	}
	budget := envFloat("VERIF_RACE_QUICK_S", 20)
	if tier == "thorough" {
		budget = envFloat("VERIF_RACE_THOROUGH_S", 300)
	}
	self, _ := os.Executable()
	bin := filepath.Join(filepath.Dir(self), "panasim-race")
	if _, err := os.Stat(bin); err != nil {
		fmt.Println("MACHINERY-TROUBLE: race-instrumented binary missing:", bin)
		return nil, 0, 2
	}
	logBase := filepath.Join(scratch, "racelog")
	cmd := exec.Command(bin, "racechild", "--seed", fmt.Sprint(seed), "--budget", fmt.Sprint(budget), "--scratch", scratch)
	cmd.Env = append(os.Environ(), "GORACE=halt_on_error=0 exitcode=0 log_path="+logBase)
	outb, err := cmd.CombinedOutput()
	out := string(outb)
	if err != nil {
		if strings.Contains(out, "fatal error: concurrent map") && strings.Contains(out, "github.com/medibloc/panacea-core/v2/x/") {
			p := filepath.Join(outDir(), "replays", fmt.Sprintf("race-C20-%d-fatal.txt", seed))
			_ = os.MkdirAll(filepath.Dir(p), 0o755)
			_ = os.WriteFile(p, []byte(tail(out, 20000)), 0o644)
			fmt.Println("violation: property=C20 class=race.fatal_concurrent_map the runtime aborted the process: concurrent map access with panacea-core frames on the stack")
			fmt.Printf("VIOLATION property=C20 replay=%s\n", p)
			return map[string]interface{}{"race_subcheck": "aborted by the runtime: concurrent map access"}, 1, 1
		}
		fmt.Println("MACHINERY-TROUBLE: race child failed:", err, tail(out, 1200))
		return nil, 0, 2
	}
	// parse race reports
	files, _ := filepath.Glob(logBase + ".*")
	var reports []raceReport
	for _, f := range files {
		bz, _ := os.ReadFile(f)
		reports = append(reports, parseRaceLog(string(bz))...)
	}
	dep, own, harness := 0, 0, 0
	depPairs := map[string]int{}
	var ownReports []raceReport
	for _, r := range reports {
		switch {
		case r.ownedBy("github.com/medibloc/panacea-core"):
			own++
			ownReports = append(ownReports, r)
		case r.ownedBy("main."):
			harness++
		default:
			dep++
			depPairs[r.pair()]++
		}
	}
	exit := 0
	nviol := 0
	if harness > 0 {
		fmt.Printf("MACHINERY-TROUBLE: %d data race(s) inside the harness itself\n", harness)
		exit = 2
	}
	_ = os.MkdirAll(filepath.Join(outDir(), "replays"), 0o755)
	if own > 0 {
		nviol += own
		p := filepath.Join(outDir(), "replays", fmt.Sprintf("race-C20-%d.txt", seed))
		var b strings.Builder
		for _, r := range ownReports {
			b.WriteString(r.Text + "\n==================\n")
		}
		_ = os.WriteFile(p, []byte(b.String()), 0o644)
		fmt.Printf("violation: property=C20 class=race.panacea_frame: %d data race report(s) whose racing access is in panacea-core code, first: %s\n", own, ownReports[0].pair())
		fmt.Printf("VIOLATION property=C20 replay=%s\n", p)
		if exit == 0 {
			exit = 1
		}
	}
	// oracle lines printed by the child
	stats := map[string]string{}
	for _, l := range strings.Split(out, "\n") {
		if strings.HasPrefix(l, "RACECHILD-VIOLATION ") {
			nviol++
			p := filepath.Join(outDir(), "replays", fmt.Sprintf("race-C20-%d-oracle.txt", seed))
			_ = os.WriteFile(p, []byte(out), 0o644)
			fmt.Printf("violation: property=C20 %s\n", trunc(l[len("RACECHILD-VIOLATION "):], 800))
			fmt.Printf("VIOLATION property=C20 replay=%s\n", p)
			if exit == 0 {
				exit = 1
			}
		}
		if strings.HasPrefix(l, "RACECHILD-STAT ") {
			kv := strings.SplitN(l[len("RACECHILD-STAT "):], "=", 2)
			if len(kv) == 2 {
				stats[kv[0]] = kv[1]
			}
		}
	}
	top := make([]string, 0, len(depPairs))
	for k, v := range depPairs {
		top = append(top, fmt.Sprintf("%dx %s", v, k))
	}
	sort.Strings(top)
	if len(top) > 8 {
		top = top[:8]
	}
	cov := map[string]interface{}{"race_subcheck": map[string]interface{}{
		"budget_s": budget, "race_reports_total": len(reports), "reports_with_panacea_frame": own, "dependency_races_logged_only": dep,
		"dependency_race_sites": top, "child_counters": stats,
		"note": "real goroutines on the -race build; interleaving uncontrolled (not replayable); a report counts iff the first non-runtime frame of either access is in github.com/medibloc/panacea-core",
	}}
	fmt.Printf("race sub-check: reports=%d panacea=%d dependency-only=%d\n", len(reports), own, dep)
	return cov, nviol, exit
}

type raceReport struct {
	Text   string
	Stacks [][]string // function names of the two access stacks
}

var reFrame = regexp.MustCompile(`^  ([^\s(]+(?:\(\*?[^)]*\))?[^\s(]*)\(`)

func parseRaceLog(s string) []raceReport {
	var out []raceReport
	for _, blk := range strings.Split(s, "==================") {
		if !strings.Contains(blk, "WARNING: DATA RACE") {
			continue
		}
		r := raceReport{Text: strings.TrimSpace(blk)}
		var cur []string
		inAccess := false
		for _, l := range strings.Split(blk, "\n") {
			t := strings.TrimSpace(l)
			switch {
			case strings.HasPrefix(t, "Write at"), strings.HasPrefix(t, "Read at"), strings.HasPrefix(t, "Previous write at"), strings.HasPrefix(t, "Previous read at"),
				strings.HasPrefix(t, "Atomic write at"), strings.HasPrefix(t, "Atomic read at"), strings.HasPrefix(t, "Previous atomic"):
				if inAccess && cur != nil {
					r.Stacks = append(r.Stacks, cur)
				}
				cur = []string{}
				inAccess = true
			case strings.HasPrefix(t, "Goroutine "):
				if inAccess && cur != nil {
					r.Stacks = append(r.Stacks, cur)
				}
				cur = nil
				inAccess = false
			default:
				if inAccess && strings.HasPrefix(l, "  ") && !strings.HasPrefix(l, "      ") && t != "" {
					fn := t
					if i := strings.LastIndex(fn, "("); i > 0 {
						fn = fn[:i]
					}
					cur = append(cur, fn)
				}
			}
		}
		if inAccess && cur != nil {
			r.Stacks = append(r.Stacks, cur)
		}
		out = append(out, r)
	}
	return out
}

func firstOwnFrame(stack []string) string {
	for _, f := range stack {
		if strings.HasPrefix(f, "runtime.") || strings.HasPrefix(f, "sync.") || strings.HasPrefix(f, "sync/atomic.") || strings.HasPrefix(f, "internal/") {
			continue
		}
		return f
	}
	return ""
}

func (r raceReport) ownedBy(prefix string) bool {
	for _, st := range r.Stacks {
		if strings.HasPrefix(firstOwnFrame(st), prefix) {
			return true
		}
	}
	return false
}

func (r raceReport) pair() string {
	var fs []string
	for _, st := range r.Stacks {
		fs = append(fs, firstOwnFrame(st))
	}
	return strings.Join(fs, " <-> ")
}

// ---------------------------------------------------------------------------------------------
// child (runs in the -race binary)

type raceRef struct {
	mu  sync.Mutex
	ref map[int64][]string // height -> answer hash per request
}

func raceChildMain(args []string) int {
	fs := flag.NewFlagSet("racechild", flag.ExitOnError)
	seed := fs.Uint64("seed", 1, "seed")
	budget := fs.Float64("budget", 20, "seconds")
	scratch := fs.String("scratch", os.TempDir(), "scratch")
	_ = fs.Parse(args)
	firstUseRaces()
	env := NewEnv()
	deadline := time.Now().Add(time.Duration(*budget * float64(time.Second)))
	var viol []string
	var vmu sync.Mutex
	addViol := func(f string, a ...interface{}) {
		vmu.Lock()
		viol = append(viol, fmt.Sprintf(f, a...))
		vmu.Unlock()
	}
	var nQueries, nMsgOps, nKsOps, nBlocks, nSims int64

	// (a) shared message values: validation, sign bytes, signer extraction from several goroutines
	g := &Gen{rng: NewPRNG(*seed), env: env, prop: "C16", tier: "quick", specs: map[int]*TxSpec{}, built: map[int][]sdk.Msg{}, plan: NewModel()}
	g.p = profileFor("C16", "quick", NewPRNG(1))
	tbl := g.boundaryTable()
	bc := &BuildCtx{Env: env, BlockTime: time.Unix(1700000000, 0), DidSeq: func(string) (uint64, bool) { return 0, true }, Built: func(int, int) sdk.Msg { return nil }}
	var shared []sdk.Msg
	for i := range tbl {
		func() {
			defer func() { recover() }()
			shared = append(shared, bc.Build(&tbl[i]))
		}()
	}
	var wg sync.WaitGroup
	stop := int32(0)
	for w := 0; w < 3; w++ {
		wg.Add(1)
		go func(w int) {
			defer wg.Done()
			r := NewPRNG(*seed + uint64(w)*977)
			for atomic.LoadInt32(&stop) == 0 {
				m := shared[r.Intn(len(shared))]
				func() {
					defer func() { recover() }()
					if c, ok := m.(*didtypes.MsgCreateDIDRequest); ok && c.Document != nil && len(c.Document.VerificationMethods) > 0 && r.Chance(0.5) {
						// a private copy with a verification-method type nobody has used before (legal: the type list is open):
						// validation code that remembers what it has seen does so in state shared by every goroutine
						if bz, err := c.Marshal(); err == nil {
							var own didtypes.MsgCreateDIDRequest
							if own.Unmarshal(bz) == nil && own.Document != nil && len(own.Document.VerificationMethods) > 0 && own.Document.VerificationMethods[0] != nil {
								own.Document.VerificationMethods[0].Type = fmt.Sprintf("FutureKey%dVerificationKey20%02d", r.Intn(1<<30), r.Intn(99))
								_ = own.ValidateBasic()
							}
						}
					}
					if m.ValidateBasic() == nil {
						_ = m.GetSigners()
					}
					if lm, ok := m.(interface{ GetSignBytes() []byte }); ok {
						_ = lm.GetSignBytes()
					}
					// DID ownership proofs: signing and verification bytes
					var doc *didtypes.DIDDocument
					switch t := m.(type) {
					case *didtypes.MsgCreateDIDRequest:
						doc = t.Document
					case *didtypes.MsgUpdateDIDRequest:
						doc = t.Document
					}
					if doc != nil {
						k := env.DidKeys[r.Intn(len(env.DidKeys))]
						seq := uint64(r.Intn(5))
						if sig, err := didtypes.Sign(doc, seq, k); err == nil {
							if _, ok := didtypes.Verify(sig, doc, seq, k.PubKey()); !ok {
								addViol("class=did.proof_unstable a DID proof made and verified by the same goroutine over the same document and sequence does not verify (shared mutable state in the signing-bytes code)")
							}
						}
						_ = doc.GetSignBytes()
					}
				}()
				atomic.AddInt64(&nMsgOps, 1)
			}
		}(w)
	}

	// (c) key store from several goroutines, no scheduler: progress watchdog
	ksDir, _ := os.MkdirTemp(*scratch, "raceks")
	ks, _ := didcrypto.NewKeyStore(ksDir)
	var lastKs int64 = time.Now().UnixNano()
	for w := 0; w < 3; w++ {
		wg.Add(1)
		go func(w int) {
			defer wg.Done()
			r := NewPRNG(*seed + uint64(w)*31337)
			var paths []string
			for atomic.LoadInt32(&stop) == 0 {
				func() {
					defer func() {
						if rec := recover(); rec != nil {
							addViol("class=panic.keystore.op key store operation panicked under concurrency: %v", rec)
						}
					}()
					switch r.Intn(3) {
					case 0:
						p, err := ks.Save("shared", r.Bytes(32), ksPass)
						if err == nil {
							paths = append(paths, p)
						}
					case 1:
						if len(paths) > 0 {
							_, _ = ks.Load(paths[r.Intn(len(paths))], ksPass)
						}
					case 2:
						_, _ = ks.LoadByAddress("shared", ksPass)
					}
				}()
				atomic.AddInt64(&nKsOps, 1)
				atomic.StoreInt64(&lastKs, time.Now().UnixNano())
			}
		}(w)
	}

	// (b) queries against block execution
	known := LoadKnown(filepath.Join(verifDir, "known_findings.json"))
	for round := 0; time.Now().Before(deadline); round++ {
		s := GenerateScript(*seed*7919+uint64(round), "C09", "quick", env)
		// the query goroutines hold on to the reference replica's application: no restarts of it here
		kept := s.Steps[:0]
		for _, st := range s.Steps {
			if st.K != "restart0" {
				kept = append(kept, st)
			}
		}
		s.Steps = kept
		s.Config.Replicas = s.Config.Replicas[:1]
		s.Config.TZ = "" // time.Local is process-wide and other goroutines are running
		s.Config.EnvPerNode = false
		// IAVL's fast-node index is switched off for this replica: iavl v0.20.1 decides "this tree is the latest version,
		// iterate over the fast index" and creates the index iterator in two steps, and a Commit that completes in between
		// makes a query at the fixed height h iterate over entries of h+1 (no version filter in the fast iterator) - a race
		// inside the dependency (seen once in 263 075 concurrent queries of a thorough run), not in the code C20 is about
		s.Config.Replicas[0].FastNodeOff = true
		s.Config.CrashEnum = 0
		var steps []Step
		for _, st := range s.Steps {
			if st.K == "tx" || st.K == "block" {
				steps = append(steps, st)
			}
		}
		s.Steps = steps
		dir, _ := os.MkdirTemp(*scratch, "racerun")
		e := NewExec(s, env, dir, known, "")
		e.KeepApps = true
		ref := &raceRef{ref: map[int64][]string{}}
		var committed int64
		var panel []PanelReq
		var appReady int32
		e.OnCommit = func(h int64) {
			if panel == nil {
				panel = smallPanel(BuildPanel(e.Model, env, 30))
				if len(panel) == 0 {
					panel = []PanelReq{pr(qDenoms, emptyReq{})}
				}
			}
			var hs []string
			for _, p := range panel {
				r := e.R[0].QueryRaw(p.Path, p.Data, h)
				hs = append(hs, hashAns(r))
			}
			ref.mu.Lock()
			ref.ref[h] = hs
			ref.mu.Unlock()
			atomic.StoreInt64(&committed, h)
			atomic.StoreInt32(&appReady, 1)
			atomic.AddInt64(&nBlocks, 1)
		}
		qstop := int32(0)
		var qwg sync.WaitGroup
		var poolMu sync.Mutex
		var pool [][]byte
		prevOnCommit := e.OnCommit
		e.OnCommit = func(h int64) {
			prevOnCommit(h)
			poolMu.Lock()
			for _, tx := range e.at(h).B.Txs {
				pool = append(pool, append([]byte(nil), tx...))
			}
			poolMu.Unlock()
		}
		for w := 0; w < 2; w++ {
			qwg.Add(1)
			go func(w int) {
				defer qwg.Done()
				r := NewPRNG(*seed + uint64(w)*53 + uint64(round)*17)
				for atomic.LoadInt32(&qstop) == 0 {
					poolMu.Lock()
					var tx []byte
					if len(pool) > 0 {
						tx = pool[r.Intn(len(pool))]
					}
					poolMu.Unlock()
					if tx == nil || atomic.LoadInt32(&appReady) == 0 {
						time.Sleep(time.Millisecond)
						continue
					}
					func() {
						defer func() { recover() }()
						if r.Chance(0.5) {
							_, _, _ = e.R[0].App.Simulate(tx)
						} else {
							e.R[0].App.CheckTx(abci.RequestCheckTx{Tx: tx, Type: abci.CheckTxType_New})
						}
					}()
					atomic.AddInt64(&nSims, 1)
				}
			}(w)
		}
		for w := 0; w < 3; w++ {
			qwg.Add(1)
			go func(w int) {
				defer qwg.Done()
				r := NewPRNG(*seed + uint64(w)*7 + uint64(round)*131)
				for atomic.LoadInt32(&qstop) == 0 {
					if atomic.LoadInt32(&appReady) == 0 {
						time.Sleep(time.Millisecond)
						continue
					}
					hb := atomic.LoadInt64(&committed)
					ref.mu.Lock()
					np := len(ref.ref[hb])
					ref.mu.Unlock()
					if np == 0 {
						continue
					}
					i := r.Intn(np)
					p := panel[i]
					explicit := r.Chance(0.5) && hb > 1
					qh := int64(0)
					if explicit {
						qh = int64(r.Range(1, int(hb)))
					}
					res := e.R[0].QueryRaw(p.Path, p.Data, qh)
					ha := atomic.LoadInt64(&committed)
					atomic.AddInt64(&nQueries, 1)
					if res.IsPanic() {
						addViol("class=panic.query a query issued concurrently with block execution panicked: %s", res.Brief())
						continue
					}
					got := hashAns(res)
					ok := false
					ref.mu.Lock()
					if explicit {
						if hs, have := ref.ref[qh]; have && i < len(hs) {
							ok = hs[i] == got
						} else {
							ok = true
						}
					} else {
						for j := hb; j <= ha+1; j++ {
							if hs, have := ref.ref[j]; have && i < len(hs) && hs[i] == got {
								ok = true
							}
						}
						if _, have := ref.ref[ha+1]; !have && !ok {
							// the answer may belong to height ha+1 whose reference is not recorded yet: re-check later
							ok = true
							atomic.AddInt64(&nQueries, 0)
						}
					}
					ref.mu.Unlock()
					if !ok {
						if explicit {
							addViol("class=snapshot.historical_changed query %s at fixed height %d, issued while the chain moved from %d to %d, differs from the answer recorded right after Commit(%d)", p.Path, qh, hb, ha, qh)
						} else {
							addViol("class=snapshot.latest_not_committed query %s at 'latest', issued while the chain moved from %d to %d, equals the committed answer of none of these heights", p.Path, hb, ha)
						}
					}
				}
			}(w)
		}
		e.Run()
		atomic.StoreInt32(&qstop, 1)
		qwg.Wait()
		os.RemoveAll(dir)
		for _, v := range e.Viol {
			addViol("class=%s (during the concurrent run) %s", v.Class, v.Detail)
		}
		if time.Since(time.Unix(0, atomic.LoadInt64(&lastKs))) > 60*time.Second {
			addViol("class=keystore.deadlock no key-store operation completed for 60 s with 3 goroutines using one KeyStore")
			break
		}
	}
	atomic.StoreInt32(&stop, 1)
	done := make(chan struct{})
	go func() { wg.Wait(); close(done) }()
	select {
	case <-done:
	case <-time.After(90 * time.Second):
		addViol("class=keystore.deadlock key-store goroutines did not finish within 90 s after being told to stop")
	}
	os.RemoveAll(ksDir)
	seenV := map[string]bool{}
	for _, v := range viol {
		cls := strings.SplitN(v, " ", 2)[0]
		if seenV[cls] {
			continue
		}
		seenV[cls] = true
		fmt.Println("RACECHILD-VIOLATION " + v)
	}
	fmt.Printf("RACECHILD-STAT concurrent_queries=%d\nRACECHILD-STAT shared_message_ops=%d\nRACECHILD-STAT keystore_ops=%d\nRACECHILD-STAT blocks=%d\nRACECHILD-STAT concurrent_simulate_checktx=%d\n", nQueries, nMsgOps, nKsOps, nBlocks, nSims)
	return 0
}

type emptyReq struct{}

func (emptyReq) Marshal() ([]byte, error) { return nil, nil }
func (emptyReq) Unmarshal([]byte) error   { return nil }

func hashAns(r QRes) string {
	h := sha256.New()
	fmt.Fprintf(h, "%d|%s|", r.Code, r.Codespace)
	h.Write(r.Value)
	return hex.EncodeToString(h.Sum(nil)[:10])
}


// firstUseRaces: the first thing a fresh node process does with the custom modules' stateless code may be done by several
// goroutines at once (CheckTx, Simulate and DeliverTx of the first transactions after a start). Whatever that code builds
// lazily - tables, compiled patterns, registries - is built here by four goroutines released together, each on message
// values of its own, before this process has validated anything. The race detector reports unsynchronised first-use
// initialisation even when the goroutines do not collide in time.
func firstUseRaces() {
	ensureSDKConfig()
	const did = "did:panacea:7Prd74ry1Uct87nZqL3ny7aR7Cg46JamVbJgk8azVgUm"
	const pub = "qoRmLNBEXoaKDE8dKffMq2DBNxacTEfvbKRuFrccYW1b" // base58 of 33 bytes
	addr := sdk.AccAddress(bytes.Repeat([]byte{7}, 20)).String()
	start := make(chan struct{})
	var wg sync.WaitGroup
	for w := 0; w < 4; w++ {
		wg.Add(1)
		go func(w int) {
			defer wg.Done()
			ctx := didtypes.JSONStringOrStrings{"https://www.w3.org/ns/did/v1"}
			vm := didtypes.NewVerificationMethod(did+"#key1", "EcdsaSecp256k1VerificationKey2019", did, []byte(pub))
			vm.PublicKeyBase58 = pub
			doc := &didtypes.DIDDocument{Id: did, Contexts: &ctx, VerificationMethods: []*didtypes.VerificationMethod{&vm},
				Authentications: []didtypes.VerificationRelationship{didtypes.NewVerificationRelationship(did + "#key1")},
				Services:        []*didtypes.Service{{Id: "s", Type: "LinkedDomains", ServiceEndpoint: "https://example.org"}}}
			msgs := []sdk.Msg{
				&didtypes.MsgCreateDIDRequest{Did: did, Document: doc, VerificationMethodId: did + "#key1", Signature: make([]byte, 64), FromAddress: addr},
				&didtypes.MsgUpdateDIDRequest{Did: did, Document: doc, VerificationMethodId: did + "#key1", Signature: make([]byte, 64), FromAddress: addr},
				&didtypes.MsgDeactivateDIDRequest{Did: did, VerificationMethodId: did + "#key1", Signature: make([]byte, 64), FromAddress: addr},
				&aoltypes.MsgCreateTopicRequest{TopicName: "topic-1", Description: "d", OwnerAddress: addr},
				&aoltypes.MsgAddWriterRequest{TopicName: "topic-1", Moniker: "w", Description: "d", WriterAddress: addr, OwnerAddress: addr},
				&aoltypes.MsgDeleteWriterRequest{TopicName: "topic-1", WriterAddress: addr, OwnerAddress: addr},
				&aoltypes.MsgAddRecordRequest{TopicName: "topic-1", Key: []byte("k"), Value: []byte("v"), WriterAddress: addr, OwnerAddress: addr},
				&pnfttypes.MsgCreateDenomRequest{Id: "dn", Name: "n", Symbol: "s", Creator: addr},
				&pnfttypes.MsgMintPNFTRequest{DenomId: "dn", Id: "t", Name: "n", Creator: addr},
				&pnfttypes.MsgTransferPNFTRequest{DenomId: "dn", Id: "t", Sender: addr, Receiver: addr},
			}
			<-start
			for round := 0; round < 3; round++ {
				for i := range msgs {
					m := msgs[(i+w*3)%len(msgs)]
					func() {
						defer func() { recover() }()
						_ = m.ValidateBasic()
						_ = m.GetSigners()
						if lm, ok := m.(interface{ GetSignBytes() []byte }); ok {
							_ = lm.GetSignBytes()
						}
					}()
				}
				func() {
					defer func() { recover() }()
					_ = doc.Valid()
					_ = didtypes.ValidateDID(did)
					_ = didtypes.ValidateVerificationMethodID(did+"#key1", did)
					_ = didtypes.ValidateKeyType("FutureKey2031")
				}()
			}
		}(w)
	}
	close(start)
	wg.Wait()
}
