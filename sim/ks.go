package main

// Key-store engine (C20 sub-check 2, C17 key-file part): the real KeyStore on a real scratch directory,
// 2-4 simulated goroutines, a lock-aware deterministic scheduler that owns every lock acquisition and
// file-system step through the guarded hooks, deadlock detection, porcupine linearizability, and
// hostile / torn key files.

import (
	"bufio"
	"crypto/sha256"
	"encoding/hex"
	"encoding/json"
	"flag"
	"fmt"
	"os"
	"path/filepath"
	"sort"
	"strings"
	"sync"
	"time"

	"github.com/anishathalye/porcupine"
	didcrypto "github.com/medibloc/panacea-core/v2/x/did/client/crypto"
	"golang.org/x/crypto/pbkdf2"
	"golang.org/x/crypto/sha3"
)

type KsOp struct {
	Kind string `json:"kind"` // save | load | loadByAddress
	Addr string `json:"addr"`
	Key  string `json:"key,omitempty"`  // hex (save)
	Of   int    `json:"of,omitempty"`   // load: index (task*100+op) of the save whose path is loaded
	Pass string `json:"pass,omitempty"` // "" = the right password
}

type KsScript struct {
	Engine    string     `json:"engine"`
	Seed      uint64     `json:"seed"`
	Tasks     [][]KsOp   `json:"tasks"`
	Picks     []int      `json:"picks,omitempty"` // recorded schedule (replay); empty = draw from the seed
	CrashAt   int        `json:"crash_at,omitempty"`
	Hostile   []KsFile   `json:"hostile,omitempty"`
	Preload   []KsOp     `json:"preload,omitempty"` // saves made by an earlier process (another KeyStore instance) before the concurrent phase
	Violation *Violation `json:"violation,omitempty"`
	TraceHash string     `json:"trace_sha256,omitempty"`
}

type KsFile struct {
	Name string `json:"name"`
	Body string `json:"body"`
	Pass string `json:"pass"`
}

const ksPass = "correct horse"

type ksReq struct {
	t     *ksTask
	kind  string // start | lock | yield | done | opdone
	write bool
	site  string
}

type ksTask struct {
	id        int
	ops       []KsOp
	resume    chan struct{}
	parked    *ksReq
	done      bool
	announced bool // has "called Lock" and waits
	holdsR    int
	holdsW    bool
}

type ksHistOp struct {
	Task, Idx    int
	Op           KsOp
	Call, Return int64
	OutKey       string // hex of returned key
	OutErr       string
	OutPath      string
	Completed    bool
	NoPath       bool // load: the path of the save it names was not known to the caller when the call was made
}

type ksSched struct {
	mu       sync.Mutex
	rng      *PRNG
	picks    []int
	pickPos  int
	tasks    []*ksTask
	cur      *ksTask
	readers  int
	writer   bool
	waitingW []*ksTask
	events   chan ksReq
	step     int64
	trace    []string
	hist     []*ksHistOp
	usedPick []int
	paths    map[int]string // save index -> path (once completed)
	ks       *didcrypto.KeyStore
	panics   []string
	crashAt  int
	stats    map[string]int64
	sticky   bool
}

func (s *ksSched) ev(f string, a ...interface{}) {
	s.step++
	s.trace = append(s.trace, fmt.Sprintf("%04d ", s.step)+fmt.Sprintf(f, a...))
}

// hooks (called on the running task's goroutine; exactly one task runs at a time)
func (s *ksSched) BeforeLock(_ *sync.RWMutex, write bool, site string) {
	t := s.cur
	s.events <- ksReq{t: t, kind: "lock", write: write, site: site}
	<-t.resume
}
func (s *ksSched) AfterUnlock(_ *sync.RWMutex, write bool) {
	t := s.cur
	if write {
		s.writer = false
		t.holdsW = false
	} else {
		s.readers--
		t.holdsR--
	}
	// the instant right after an unlock is a scheduling point too: whatever the caller does next with what it
	// read under the lock (e.g. remember it) can be overtaken by a complete operation of another goroutine
	s.events <- ksReq{t: t, kind: "yield", site: "after-unlock"}
	<-t.resume
}
func (s *ksSched) Yield(site string) {
	t := s.cur
	s.events <- ksReq{t: t, kind: "yield", site: site}
	<-t.resume
}

func (s *ksSched) choose(n int) int {
	var c int
	if s.pickPos < len(s.picks) {
		c = s.picks[s.pickPos] % n
	} else {
		c = s.rng.Intn(n)
	}
	s.pickPos++
	s.usedPick = append(s.usedPick, c)
	return c
}

type ksOutcome struct {
	Deadlock string
	Stall    string
	Crashed  bool
}

func (s *ksSched) taskBody(t *ksTask) {
	<-t.resume
	for i, op := range t.ops {
		h := &ksHistOp{Task: t.id, Idx: i, Op: op}
		s.step++
		h.Call = s.step
		s.hist = append(s.hist, h)
		func() {
			defer func() {
				if r := recover(); r != nil {
					s.panics = append(s.panics, fmt.Sprintf("%s(%s) panicked: %v", op.Kind, op.Addr, r))
					h.OutErr = "panic"
				}
			}()
			pass := ksPass
			if op.Pass != "" {
				pass = op.Pass
			}
			switch op.Kind {
			case "save":
				key, _ := hex.DecodeString(op.Key)
				p, err := s.ks.Save(op.Addr, key, pass)
				h.OutPath = p
				if err != nil {
					h.OutErr = err.Error()
				} else {
					s.paths[t.id*100+i] = p
				}
			case "load":
				p := s.paths[op.Of]
				if p == "" {
					// the caller does not know that file yet (the Save has not returned its path, even if the file is
					// already visible): this is a Load of a path that does not exist and has to fail
					p = filepath.Join(os.TempDir(), "no-such-key-file")
					h.NoPath = true
				}
				k, err := s.ks.Load(p, pass)
				h.OutKey = hex.EncodeToString(k)
				if err != nil {
					h.OutErr = err.Error()
				}
			case "loadByAddress":
				k, err := s.ks.LoadByAddress(op.Addr, pass)
				h.OutKey = hex.EncodeToString(k)
				if err != nil {
					h.OutErr = err.Error()
				}
			}
		}()
		s.step++
		h.Return = s.step
		h.Completed = true
		s.trace = append(s.trace, fmt.Sprintf("%04d T%d %s(%s) -> err=%v", s.step, t.id, op.Kind, op.Addr, h.OutErr != ""))
		// a scheduling point between operations
		s.events <- ksReq{t: t, kind: "yield", site: "between-ops"}
		<-t.resume
	}
	s.events <- ksReq{t: t, kind: "done"}
}

// run drives the tasks to completion (or deadlock / stall / injected crash).
func (s *ksSched) run() ksOutcome {
	for _, t := range s.tasks {
		t.parked = &ksReq{t: t, kind: "start"}
		go s.taskBody(t)
	}
	for {
		// every live task is parked here
		type action struct {
			t    *ksTask
			what string
		}
		var acts []action
		live := 0
		for _, t := range s.tasks {
			if t.done {
				continue
			}
			live++
			p := t.parked
			switch p.kind {
			case "start", "yield":
				acts = append(acts, action{t, "go"})
			case "lock":
				if p.write {
					if !t.announced {
						acts = append(acts, action{t, "announce"})
					} else if !s.writer && s.readers == 0 && len(s.waitingW) > 0 && s.waitingW[0] == t {
						acts = append(acts, action{t, "grantW"})
					}
				} else if !s.writer && len(s.waitingW) == 0 {
					acts = append(acts, action{t, "grantR"})
				}
			}
		}
		if live == 0 {
			return ksOutcome{}
		}
		if len(acts) == 0 {
			var desc []string
			for _, t := range s.tasks {
				if !t.done {
					desc = append(desc, fmt.Sprintf("T%d waits for %s(write=%v) at %s holding R=%d W=%v", t.id, t.parked.kind, t.parked.write, t.parked.site, t.holdsR, t.holdsW))
				}
			}
			return ksOutcome{Deadlock: strings.Join(desc, "; ")}
		}
		if s.crashAt > 0 && int(s.step) >= s.crashAt {
			s.ev("process crash injected")
			return ksOutcome{Crashed: true}
		}
		var a action
		if s.sticky && s.pickPos >= len(s.picks) && s.cur != nil && s.rng.Chance(0.7) {
			// run-to-completion bias: keep going with the task that ran last, so that whole operations of one task fall
			// inside a single gap of another (the recorded pick is the index actually taken: replays do not need the bias)
			idx := -1
			for i := range acts {
				if acts[i].t == s.cur {
					idx = i
				}
			}
			if idx >= 0 {
				s.pickPos++
				s.usedPick = append(s.usedPick, idx)
				a = acts[idx]
			} else {
				a = acts[s.choose(len(acts))]
			}
		} else {
			a = acts[s.choose(len(acts))]
		}
		t := a.t
		switch a.what {
		case "announce":
			t.announced = true
			s.waitingW = append(s.waitingW, t)
			s.ev("T%d %s: Lock() called, waits (readers=%d writer=%v)", t.id, t.parked.site, s.readers, s.writer)
			s.stats["sched.lock_announce"]++
			continue // stays parked; granting is a separate action
		case "grantW":
			s.waitingW = s.waitingW[1:]
			t.announced = false
			s.writer = true
			t.holdsW = true
			s.ev("T%d %s: write lock granted", t.id, t.parked.site)
		case "grantR":
			s.readers++
			t.holdsR++
			s.ev("T%d %s: read lock granted (readers=%d)", t.id, t.parked.site, s.readers)
			if t.holdsR > 1 {
				s.stats["probe.recursive_rlock"]++
			}
		case "go":
			s.ev("T%d continues from %s", t.id, t.parked.site)
		}
		s.stats["sched.decisions"]++
		s.cur = t
		t.parked = nil
		t.resume <- struct{}{}
		// wait for the running task to park again (or finish); a watchdog catches real blocking that the
		// scheduler cannot see (e.g. a lock acquisition without a hook)
		select {
		case r := <-s.events:
			if r.kind == "done" {
				r.t.done = true
			} else {
				rr := r
				r.t.parked = &rr
			}
		case <-time.After(20 * time.Second):
			return ksOutcome{Stall: fmt.Sprintf("T%d made no progress for 20 s after being released from %s: it is blocked on something the scheduler did not grant", t.id, a.what)}
		}
	}
}

// ---- porcupine model --------------------------------------------------------------------------

type ksIn struct {
	Kind, Addr, Key string
	SaveIdx         int
}
type ksOut struct {
	Key string
	Err bool
}

// state: "addr=key;addr=key" (last saved key per address), plus "#idx=key" per completed save (for Load by path)
func ksModel() porcupine.Model {
	return porcupine.Model{
		Init: func() interface{} { return "" },
		Step: func(state, input, output interface{}) (bool, interface{}) {
			st := state.(string)
			in := input.(ksIn)
			out := output.(ksOut)
			m := map[string]string{}
			for _, kv := range strings.Split(st, ";") {
				if i := strings.Index(kv, "="); i > 0 {
					m[kv[:i]] = kv[i+1:]
				}
			}
			switch in.Kind {
			case "save":
				if out.Err {
					return true, st // a refused save changes nothing
				}
				m["a:"+in.Addr] = in.Key
				m[fmt.Sprintf("#%d", in.SaveIdx)] = in.Key
			case "load":
				k, ok := m[fmt.Sprintf("#%d", in.SaveIdx)]
				if !ok {
					return out.Err, st
				}
				return !out.Err && out.Key == k, st
			case "loadByAddress":
				k, ok := m["a:"+in.Addr]
				if !ok {
					return out.Err, st
				}
				return !out.Err && out.Key == k, st
			}
			keys := make([]string, 0, len(m))
			for k := range m {
				keys = append(keys, k)
			}
			sort.Strings(keys)
			var b strings.Builder
			for _, k := range keys {
				b.WriteString(k + "=" + m[k] + ";")
			}
			return true, b.String()
		},
		Equal: func(a, b interface{}) bool { return a.(string) == b.(string) },
	}
}

// ---- one key-store run -------------------------------------------------------------------------

type KsResult struct {
	Seed      uint64           `json:"seed"`
	Trace     string           `json:"trace"`
	Stats     map[string]int64 `json:"stats"`
	Violation *Violation       `json:"violation,omitempty"`
	Script    *KsScript        `json:"script,omitempty"`
	WallMs    int64            `json:"wall_ms"`
	Sample    json.RawMessage  `json:"sample,omitempty"`
}

func genKsScript(seed uint64) *KsScript {
	r := NewPRNG(seed ^ 0x6b73)
	s := &KsScript{Engine: "ks", Seed: seed}
	nt := r.Range(2, 4)
	addrs := []string{"did:panacea:A#key1", "addr2", "x"}[:r.Range(1, 3)]
	total := r.Range(3, 8)
	weights := []int{4, 2, 5}
	if r.Chance(0.45) {
		// contended: one address, many saves and by-address loads (a stale answer needs a save overtaking a
		// by-address load, and then one more by-address load)
		addrs = addrs[:1]
		nt = r.Range(2, 3)
		total = r.Range(5, 9)
		weights = []int{4, 1, 6}
	}
	keyN := 0
	var saves []int
	for t := 0; t < nt; t++ {
		s.Tasks = append(s.Tasks, nil)
	}
	for i := 0; i < total; i++ {
		t := r.Intn(nt)
		idx := t*100 + len(s.Tasks[t])
		a := addrs[r.Intn(len(addrs))]
		switch r.Pick(weights) {
		case 0:
			keyN++
			if r.Chance(0.1) {
				// a name the file system refuses (a path separator in it, far too long): the save fails after it took the
				// lock, and everything after it must still get its turn
				a = []string{"did:panacea:A/key1", strings.Repeat("n", 300), "a/b/c"}[r.Intn(3)]
			}
			s.Tasks[t] = append(s.Tasks[t], KsOp{Kind: "save", Addr: a, Key: fmt.Sprintf("%064x", uint64(keyN)+seed<<8)})
			saves = append(saves, idx)
		case 1:
			of := -1
			if len(saves) > 0 {
				of = saves[r.Intn(len(saves))]
			}
			s.Tasks[t] = append(s.Tasks[t], KsOp{Kind: "load", Addr: a, Of: of})
		case 2:
			if r.Chance(0.15) {
				// an address nobody saved a key for; the ones with '[' are malformed glob patterns, for which the
				// directory listing itself fails once the directory holds a file. Either way: an error, and the
				// key store stays usable
				a = []string{"did:panacea:A#key[1", "nobody", "a[", "did:panacea:A#key1[a-"}[r.Intn(4)]
			}
			s.Tasks[t] = append(s.Tasks[t], KsOp{Kind: "loadByAddress", Addr: a})
		}
	}
	if r.Chance(0.4) {
		// key files that are already on disk when this KeyStore instance is created (saved by an earlier process)
		for i := r.Range(1, 2); i > 0; i-- {
			keyN++
			s.Preload = append(s.Preload, KsOp{Kind: "save", Addr: addrs[r.Intn(len(addrs))], Key: fmt.Sprintf("%064x", uint64(keyN)+seed<<8)})
		}
	}
	if r.Chance(0.2) {
		s.CrashAt = r.Range(4, 30)
	}
	if r.Chance(0.7) {
		n := r.Range(1, 4)
		for i := 0; i < n; i++ {
			s.Hostile = append(s.Hostile, genHostileFile(r, i))
		}
	}
	return s
}

func keccak(data ...[]byte) []byte {
	h := sha3.NewLegacyKeccak256()
	for _, d := range data {
		h.Write(d)
	}
	return h.Sum(nil)
}

// genHostileFile: structurally valid JSON with hostile parameters; the MAC is computed for real whenever the
// parameters allow it, so that decryption proceeds past the MAC check into the cipher.
func genHostileFile(r *PRNG, i int) KsFile {
	pass := []string{"", "pw", strings.Repeat("p", 300)}[r.Intn(3)]
	ver := []int{3, 3, 3, 0, -1}[r.Intn(5)]
	cipherName := []string{"aes-128-ctr", "aes-128-ctr", "aes-128-ctr", "", "aes-256-gcm"}[r.Intn(5)]
	kdfName := []string{"pbkdf2", "pbkdf2", "pbkdf2", "scrypt", ""}[r.Intn(5)]
	prf := []string{"hmac-sha256", "hmac-sha256", "hmac-sha256", "hmac-sha512", ""}[r.Intn(5)]
	c := []int{1, 1, 2, 0, -1, 5}[r.Intn(6)]
	dklen := []int{32, 32, 32, 0, -1, -5, -64, 1, 16, 31, 33, 64, 1024, 1025, 100000}[r.Intn(15)]
	ivLen := []int{16, 16, 16, 0, 1, 15, 17, 32}[r.Intn(8)]
	saltLen := []int{32, 0, 1, 64}[r.Intn(4)]
	ctLen := []int{32, 0, 1, 31, 1000}[r.Intn(5)]
	if r.Chance(0.5) {
		// one-defect files: everything is well-formed and consistent (the password decrypts it) except one dimension, so
		// that the code behind each single validation is reached
		keep := r.Intn(9)
		if keep != 0 {
			ver = 3
		}
		if keep != 1 {
			cipherName = "aes-128-ctr"
		}
		if keep != 2 {
			kdfName = "pbkdf2"
		}
		if keep != 3 {
			prf = "hmac-sha256"
		}
		if keep != 4 {
			c = 1 + r.Intn(2)
		}
		if keep != 5 {
			dklen = 32
		}
		if keep != 6 {
			ivLen = 16
		}
		if keep != 7 {
			saltLen = 32
		}
		if keep != 8 {
			ctLen = 32
		}
	}
	salt := r.Bytes(saltLen)
	iv := r.Bytes(ivLen)
	ct := r.Bytes(ctLen)
	mac := r.Bytes(32)
	if dklen >= 32 && dklen <= 4096 && c >= 0 {
		dk := pbkdf2.Key([]byte(pass), salt, c, dklen, sha256.New)
		mac = keccak(dk[16:32], ct)
	}
	hexOr := func(b []byte) string {
		switch r.Intn(12) {
		case 0:
			return "zz" + hex.EncodeToString(b)
		case 1:
			return hex.EncodeToString(b) + "a"
		}
		return hex.EncodeToString(b)
	}
	body := map[string]interface{}{
		"version": ver, "id": "x", "address": "hostile",
		"crypto": map[string]interface{}{
			"cipher": cipherName, "ciphertext": hexOr(ct), "cipherparams": map[string]interface{}{"iv": hexOr(iv)},
			"kdf": kdfName, "kdfparams": map[string]interface{}{"c": c, "dklen": dklen, "prf": prf, "salt": hexOr(salt)}, "mac": hexOr(mac),
		},
	}
	if r.Chance(0.2) {
		// a key file as other wallets write it (geth, MyEtherWallet): scrypt instead of pbkdf2, with its own parameters -
		// complete, partly missing, zero, negative, not a power of two
		kp := map[string]interface{}{"dklen": []int{32, 32, 0, 64}[r.Intn(4)], "salt": hexOr(salt)}
		if v := []int{1024, 2, 262144, 4096, 0, 3, -1, 1 << 30}[r.Intn(8)]; r.Chance(0.85) {
			kp["n"] = v
		}
		if v := []int{8, 1, 0, -1, 1 << 20}[r.Intn(5)]; r.Chance(0.7) {
			kp["r"] = v
		}
		if v := []int{1, 0, -1, 1 << 20}[r.Intn(4)]; r.Chance(0.7) {
			kp["p"] = v
		}
		body["crypto"].(map[string]interface{})["kdf"] = "scrypt"
		body["crypto"].(map[string]interface{})["kdfparams"] = kp
		if r.Chance(0.7) {
			body["version"] = 3
			body["crypto"].(map[string]interface{})["cipher"] = "aes-128-ctr"
			body["crypto"].(map[string]interface{})["cipherparams"] = map[string]interface{}{"iv": hex.EncodeToString(r.Bytes(16))}
		}
	}
	bz, _ := json.Marshal(body)
	s := string(bz)
	switch r.Intn(10) {
	case 0:
		s = s[:r.Intn(len(s)+1)] // truncated (torn write)
	case 1:
		b := []byte(s)
		b[r.Intn(len(b))] ^= byte(1 << uint(r.Intn(8)))
		s = string(b)
	case 2:
		s = ""
	case 3:
		s = `{"version":3,"crypto":null}`
	case 4:
		s = `[1,2,3]`
	}
	return KsFile{Name: fmt.Sprintf("UTC--2000-01-01T00-00-0%d.000000000Z--hostile.json", i), Body: s, Pass: pass}
}

func runKsScript(sc *KsScript, scratch string) *KsResult {
	t0 := time.Now()
	res := &KsResult{Seed: sc.Seed, Stats: map[string]int64{}}
	dir, err := os.MkdirTemp(scratch, "ks")
	if err != nil {
		panic(err)
	}
	defer os.RemoveAll(dir)
	if len(sc.Preload) > 0 {
		prev, err := didcrypto.NewKeyStore(dir)
		if err != nil {
			panic(err)
		}
		for _, op := range sc.Preload {
			key, _ := hex.DecodeString(op.Key)
			if _, err := prev.Save(op.Addr, key, ksPass); err != nil {
				panic(err)
			}
			time.Sleep(time.Millisecond) // file names carry the time: keep the order of the earlier saves
		}
	}
	ks, err := didcrypto.NewKeyStore(dir)
	if err != nil {
		panic(err)
	}
	s := &ksSched{rng: NewPRNG(sc.Seed ^ 0x5ced), picks: sc.Picks, events: make(chan ksReq), paths: map[int]string{}, ks: ks, crashAt: sc.CrashAt, stats: res.Stats}
	s.sticky = sc.Seed%2 == 1
	for i, ops := range sc.Tasks {
		s.tasks = append(s.tasks, &ksTask{id: i, ops: ops, resume: make(chan struct{})})
	}
	didcrypto.SimHook = s
	out := s.run()
	didcrypto.SimHook = nil
	viol := func(prop, class, f string, a ...interface{}) {
		if res.Violation == nil {
			res.Violation = &Violation{Property: prop, Class: class, Detail: fmt.Sprintf(f, a...) + " | schedule: " + strings.Join(tailStrs(s.trace, 14), " ; ")}
		}
	}
	for _, h := range s.hist {
		res.Stats["ops."+h.Op.Kind]++
	}
	if len(s.panics) > 0 {
		viol("C17", "panic.keystore.op", "%s", s.panics[0])
	}
	if out.Deadlock != "" {
		res.Stats["outcome.deadlock"]++
		viol("C20", "keystore.deadlock", "no goroutine can proceed: %s", out.Deadlock)
	}
	if out.Stall != "" {
		res.Stats["outcome.stall"]++
		viol("C20", "keystore.stall", "%s", out.Stall)
	}
	if out.Crashed {
		res.Stats["fault.ks.process_crash"]++
	}
	// linearizability of the completed history (pending operations are left out: they may or may not have taken effect,
	// which porcupine models by giving them an unbounded return time)
	if out.Deadlock == "" && out.Stall == "" {
		var ops []porcupine.Operation
		for i, op := range sc.Preload {
			// completed before any concurrent operation was called
			ops = append(ops, porcupine.Operation{ClientId: 90 + i, Input: ksIn{Kind: "save", Addr: op.Addr, Key: op.Key, SaveIdx: 9000 + i}, Call: int64(-100 + 2*i), Output: ksOut{}, Return: int64(-99 + 2*i)})
		}
		maxT := s.step + 10
		for _, h := range s.hist {
			in := ksIn{Kind: h.Op.Kind, Addr: h.Op.Addr, Key: h.Op.Key, SaveIdx: h.Task*100 + h.Idx}
			if h.Op.Kind == "load" {
				in.SaveIdx = h.Op.Of
				if h.NoPath {
					in.SaveIdx = -1 // no save has this index: the model expects an error
				}
			}
			o := ksOut{Key: h.OutKey, Err: h.OutErr != ""}
			ret := h.Return
			if !h.Completed {
				if h.Op.Kind != "save" {
					continue // an unfinished read has no observable effect
				}
				ret = maxT
				o = ksOut{} // unknown outcome: assume it may have succeeded
			}
			ops = append(ops, porcupine.Operation{ClientId: h.Task, Input: in, Call: h.Call, Output: o, Return: ret})
		}
		switch porcupine.CheckOperationsTimeout(ksModel(), ops, 20*time.Second) {
		case porcupine.Illegal:
			var hs []string
			for _, h := range s.hist {
				hs = append(hs, fmt.Sprintf("T%d[%d..%d] %s(%s,%s)->key=%s err=%q", h.Task, h.Call, h.Return, h.Op.Kind, h.Op.Addr, tailHex(h.Op.Key), tailHex(h.OutKey), trunc(h.OutErr, 40)))
			}
			viol("C20", "keystore.not_linearizable", "the recorded history has no sequential explanation: %s", strings.Join(hs, " | "))
		case porcupine.Unknown:
			res.Stats["porcupine.unknown"]++
		default:
			res.Stats["porcupine.ok"]++
		}
	}
	// after a process crash: a new process opens the same directory; nothing may panic, no wrong key may be returned
	saved := map[string]map[string]bool{}
	for _, op := range sc.Preload {
		if saved[op.Addr] == nil {
			saved[op.Addr] = map[string]bool{}
		}
		saved[op.Addr][op.Key] = true
	}
	for _, h := range s.hist {
		if h.Op.Kind == "save" {
			if saved[h.Op.Addr] == nil {
				saved[h.Op.Addr] = map[string]bool{}
			}
			saved[h.Op.Addr][h.Op.Key] = true
		}
	}
	ks2, _ := didcrypto.NewKeyStore(dir)
	addrs := make([]string, 0, len(saved))
	for a := range saved {
		addrs = append(addrs, a)
	}
	sort.Strings(addrs)
	if out.Deadlock == "" && out.Stall == "" {
		for _, a := range addrs {
			func() {
				defer func() {
					if r := recover(); r != nil {
						viol("C17", "panic.keystore.load", "LoadByAddress(%s) in a fresh process after crash panicked: %v", a, r)
					}
				}()
				k, err := ks2.LoadByAddress(a, ksPass)
				res.Stats["ops.reload_after"]++
				if err == nil && !saved[a][hex.EncodeToString(k)] {
					viol("C20", "keystore.wrong_key", "LoadByAddress(%s) returned a key that was never saved for it", a)
				}
				if err != nil && out.Crashed {
					res.Stats["probe.ks.torn_file_error"]++
				}
			}()
		}
	}
	// hostile files
	for _, hf := range sc.Hostile {
		p := filepath.Join(dir, hf.Name)
		if err := os.WriteFile(p, []byte(hf.Body), 0o600); err != nil {
			continue
		}
		for _, pw := range []string{hf.Pass, "other"} {
			func() {
				defer func() {
					if r := recover(); r != nil {
						viol("C17", "panic.keystore.load", "KeyStore.Load of a hostile key file panicked: %v | file: %s | password %q", r, trunc(hf.Body, 500), pw)
					}
				}()
				_, err := ks2.Load(p, pw)
				res.Stats["ops.hostile_load"]++
				if err == nil {
					res.Stats["probe.ks.hostile_decrypted"]++
				}
			}()
		}
		func() {
			defer func() {
				if r := recover(); r != nil {
					viol("C17", "panic.keystore.load", "KeyStore.LoadByAddress over a hostile key file panicked: %v | file: %s", r, trunc(hf.Body, 500))
				}
			}()
			_, _ = ks2.LoadByAddress("hostile", hf.Pass)
		}()
	}
	// normalised trace (file names carry wall-clock time and are not part of it)
	h := sha256.New()
	for _, l := range s.trace {
		h.Write([]byte(l))
		h.Write([]byte{'\n'})
	}
	res.Trace = hex.EncodeToString(h.Sum(nil))
	res.WallMs = time.Since(t0).Milliseconds()
	sc2 := *sc
	sc2.Picks = s.usedPick
	res.Script = &sc2
	return res
}

func tailHex(k string) string {
	if len(k) > 8 {
		return "…" + k[len(k)-8:]
	}
	return k
}

func tailStrs(a []string, n int) []string {
	if len(a) <= n {
		return a
	}
	return a[len(a)-n:]
}

func ksWorkerMain(args []string) int {
	fs := flag.NewFlagSet("ksworker", flag.ExitOnError)
	base := fs.Uint64("base", 1, "seed base")
	start := fs.Int("start", 0, "first index")
	stride := fs.Int("stride", 1, "stride")
	budget := fs.Float64("budget", 20, "seconds")
	scratch := fs.String("scratch", os.TempDir(), "scratch")
	_ = fs.Parse(args)
	out := bufio.NewWriter(os.Stdout)
	defer out.Flush()
	t0 := time.Now()
	for i, n := *start, 0; ; i, n = i+*stride, n+1 {
		if time.Since(t0).Seconds() > *budget && n > 0 {
			break
		}
		seed := *base*1_000_003 + uint64(i)
		sc := genKsScript(seed)
		r := runKsScript(sc, *scratch)
		if r.Violation == nil {
			if n == 0 {
				r.Sample, _ = json.Marshal(map[string]interface{}{"tasks": sc.Tasks, "crash_at": sc.CrashAt, "hostile_files": len(sc.Hostile)})
			}
			r.Script = nil
		}
		bz, _ := json.Marshal(r)
		out.Write(bz)
		out.WriteByte('\n')
		out.Flush()
		if r.Violation != nil {
			break
		}
	}
	return 0
}

func replayKS(bz []byte) int {
	var sc KsScript
	if err := json.Unmarshal(bz, &sc); err != nil {
		fmt.Println("bad ks replay file:", err)
		return 2
	}
	want := sc.Violation
	scratch, _ := os.MkdirTemp("", "panasim-ksreplay-")
	defer os.RemoveAll(scratch)
	r := runKsScript(&sc, scratch)
	fmt.Printf("ks replay seed=%d trace=%s\n", sc.Seed, r.Trace)
	if r.Violation == nil {
		fmt.Println("no violation on this tree")
		if want != nil {
			fmt.Println("REPLAY-NOT-REPRODUCED")
		}
		return 0
	}
	fmt.Printf("violation: property=%s class=%s: %s\n", r.Violation.Property, r.Violation.Class, r.Violation.Detail)
	if want != nil && want.Property == r.Violation.Property && want.Class == r.Violation.Class {
		if sc.TraceHash == "" || sc.TraceHash == r.Trace {
			fmt.Println("REPLAY-OK (same violation class and identical schedule trace)")
		} else {
			fmt.Println("REPLAY-SAME-CLASS")
		}
	}
	fmt.Printf("VIOLATION property=%s replay=<this file>\n", r.Violation.Property)
	return 1
}
