package main

import (
	"encoding/json"
	"fmt"
	"io"
	"log"
	"os"
	"runtime/debug"
	"time"
)

func main() {
	debug.SetGCPercent(400)
	log.SetOutput(io.Discard) // x/did logs a warning for every unknown key type through the std logger
	if len(os.Args) < 2 {
		fmt.Fprintln(os.Stderr, "usage: panasim <smoke|check|worker|replay|selftest> ...")
		os.Exit(2)
	}
	switch os.Args[1] {
	case "smoke":
		smoke()
	default:
		os.Exit(cliMain(os.Args[1:]))
	}
}

func smoke() {
	env := NewEnv()
	a := func(i int) string { return env.Accs[i].Addr.String() }
	s := &Script{Version: 1, Property: "ALL", Seed: 1, Tier: "quick",
		Config: RunConfig{Replicas: []NodeCfg{{}, {Pruning: "everything", Storm: true}, {Pruning: "custom", IAVLCache: -1}}, Profile: "smoke", QueryEvery: 2, MidBlockRate: 0.5, CrashEnum: 2, CrashSample: 8},
		Steps: []Step{
			{K: "tx", ID: 1, Tx: &TxSpec{Msgs: []MsgSpec{{T: "aol.CreateTopic", F: map[string]string{"topic": "t1", "desc": "d", "owner": a(0)}}}}},
			{K: "block"},
			{K: "tx", ID: 2, Tx: &TxSpec{Msgs: []MsgSpec{{T: "aol.AddWriter", F: map[string]string{"topic": "t1", "moniker": "m", "desc": "d", "owner": a(0), "writer": a(1)}}}}},
			{K: "tx", ID: 3, Tx: &TxSpec{Msgs: []MsgSpec{{T: "aol.AddRecord", F: map[string]string{"topic": "t1", "owner": a(0), "writer": a(1)}, Key: "6b", Value: "76"}}}},
			{K: "crash", Replica: 1, At: &CrashAt{Kind: "write", N: 5, Loss: "power"}},
			{K: "block"},
			{K: "tx", ID: 4, Tx: &TxSpec{Msgs: []MsgSpec{{T: "aol.AddRecord", F: map[string]string{"topic": "t1", "owner": a(0), "writer": a(2)}, Key: "6b", Value: "76"}}}},
			{K: "tx", ID: 5, Tx: &TxSpec{Msgs: []MsgSpec{{T: "pnft.CreateDenom", F: map[string]string{"id": "dn", "name": "n", "symbol": "s", "creator": a(3)}}}}},
			{K: "tx", ID: 6, Tx: &TxSpec{Msgs: []MsgSpec{{T: "pnft.Mint", F: map[string]string{"denom": "dn", "id": "tk", "name": "n", "creator": a(3)}}}}},
			{K: "crash", Replica: 2, At: &CrashAt{Kind: "abci", N: 2}},
			{K: "block"},
			{K: "bootstrap"},
			{K: "upgrade"},
			{K: "block"},
			{K: "block"},
			{K: "block"},
		}}
	scratch, _ := os.MkdirTemp("", "panasim")
	defer os.RemoveAll(scratch)
	t0 := time.Now()
	e := NewExec(s, env, scratch, LoadKnown("/verif/known_findings.json"), "/dev/stdout")
	e.Run()
	fmt.Println("took", time.Since(t0), "trace", e.Trace.Sum())
	for _, v := range e.Viol {
		bz, _ := json.MarshalIndent(v, "", " ")
		fmt.Println("VIOL", string(bz))
	}
	for _, v := range e.Foreign {
		fmt.Println("FOREIGN", v.Property, v.Class, v.Detail)
	}
	bz, _ := json.Marshal(e.Stats.C)
	fmt.Println(string(bz))
}
