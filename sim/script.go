package main

// Script = seed + swarm configuration + concrete steps. Any sub-list of Steps is executable
// (signatures, account sequences and DID proofs are computed at execution time).

type TxSpec struct {
	Msgs     []MsgSpec `json:"msgs"`
	Signers  []int     `json:"signers,omitempty"`   // account indices that sign; nil = the signers the statements require
	Modes    []SigMode `json:"modes,omitempty"`     // per signer
	SeqDelta []int     `json:"seq_delta,omitempty"` // per signer offset to the on-chain sequence (adversarial)
	BadChain bool      `json:"bad_chain,omitempty"`
	Timeout  int       `json:"timeout,omitempty"` // timeout_height relative to the height of the block that carries the transaction (negative: already passed)
	Granter  string    `json:"granter,omitempty"` // the transaction's fee_granter field (no fee allowance exists anywhere in the simulated chain)
	FeeAmt   string    `json:"fee,omitempty"` // default 2000
	FeeDen   string    `json:"fee_denom,omitempty"`
	Fee2Amt  string    `json:"fee2,omitempty"` // a second fee coin (another denomination)
	Fee2Den  string    `json:"fee2_denom,omitempty"`
	Gas      uint64    `json:"gas,omitempty"`
	Hold     int       `json:"hold,omitempty"` // network delay: number of blocks the tx is held back
	// tampering relay: signatures are collected over SignOver, the delivered tx carries Msgs
	SignOver []MsgSpec `json:"sign_over,omitempty"`
	// replay: deliver exactly the bytes of an earlier tx again
	ReplayOf int    `json:"replay_of,omitempty"`
	Note     string `json:"note,omitempty"`
}

type CrashAt struct {
	Kind string `json:"kind"`        // "abci" (after call number N of the block: 0=BeginBlock, i=DeliverTx i, last=EndBlock), "write" (before DB write N of Commit), "after_commit"
	N    int    `json:"n,omitempty"`
	Loss string `json:"loss,omitempty"` // "kill" | "power"
}

type Step struct {
	K  string `json:"k"`            // tx | block | crash | lag | bootstrap | upgrade | reconfig
	ID int    `json:"id,omitempty"` // tx id
	Tx *TxSpec `json:"tx,omitempty"`
	// block
	DtNs int64 `json:"dt_ns,omitempty"`
	Take int   `json:"take,omitempty"` // max txs (0 = all due)
	// crash / lag / reconfig / bootstrap: replica-level events bound to the NEXT block produced
	Replica int      `json:"replica,omitempty"`
	At      *CrashAt `json:"at,omitempty"`
	Blocks  int      `json:"blocks,omitempty"` // lag: replica stops receiving for this many blocks (partition), then catches up in a burst
	Cfg     *NodeCfg `json:"cfg,omitempty"`    // reconfig: restart with this configuration
	NoInfo  bool     `json:"no_info,omitempty"` // upgrade: restart without upgrade-info.json
	Ahead    int     `json:"ahead,omitempty"` // planahead: the plan is due this many blocks after the next one
	PlanName string  `json:"plan_name,omitempty"` // upgrade: plan name (default v2.2.1); another name is a plan this binary has no handler for (only meaningful when its height is skipped)
	HQ      *HQuery  `json:"hq,omitempty"`      // hquery: a hostile query issued against every live replica
	// simulate: the transaction is only simulated (never broadcast) on one replica (0 = the reference replica)
}

type RunConfig struct {
	Replicas []NodeCfg   `json:"replicas"`
	Genesis  GenesisSpec `json:"genesis"`
	Profile  string      `json:"profile"`
	InitialHeight int64  `json:"initial_height,omitempty"` // height of the first block (default 1)
	SkipUpgradeHeights []int64 `json:"skip_upgrade_heights,omitempty"` // every node is started with --unsafe-skip-upgrades for these heights
	EnvPerNode bool `json:"env_per_node,omitempty"` // every non-reference replica runs with its own HOME, USER, LANG, working directory and GOMAXPROCS
	TZ string `json:"tz,omitempty"` // the process-local time zone (time.Local) while this run executes: results must not depend on it
	LegacyVersionMap bool `json:"legacy_version_map,omitempty"` // the module version map also lists modules that earlier releases removed
	// per-run knobs (swarm)
	QueryEvery   int     `json:"query_every"`    // full query sweep every n blocks (0 = only at end)
	MidBlockRate float64 `json:"mid_block_rate"` // probability of a query/checktx task at each ABCI boundary on replicas
	CrashEnum    int     `json:"crash_enum"`     // number of blocks whose crash points are enumerated (C10/C19)
	CrashSample  int     `json:"crash_sample"`   // crash points sampled per enumerated block (0 = all)
	EpilogueOff  bool    `json:"epilogue_off,omitempty"`
}

type Script struct {
	Version  int       `json:"version"`
	Property string    `json:"property"`
	Seed     uint64    `json:"seed"`
	Tier     string    `json:"tier"`
	Config   RunConfig `json:"config"`
	Steps    []Step    `json:"steps"`
	// Prelude: seeds of the runs that the same worker process executed before this one. Only set when the violation
	// does not reproduce in a fresh process without them, i.e. when it depends on process-global state left behind
	// by earlier runs (itself a finding: state that is neither in the store nor reset per request).
	Prelude []uint64 `json:"prelude_seeds,omitempty"`
	// filled in replay files
	Violation *Violation `json:"violation,omitempty"`
	TraceHash string     `json:"trace_sha256,omitempty"`
}

type Violation struct {
	Property string            `json:"property"`
	Class    string            `json:"class"`
	Entity   string            `json:"entity,omitempty"`
	Detail   string            `json:"detail"`
	AtStep   int               `json:"at_step"`
	Height   int64             `json:"height,omitempty"`
	Replica  int               `json:"replica,omitempty"`
	Extra    map[string]string `json:"extra,omitempty"`
}
