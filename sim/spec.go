package main

// Script-level (JSON-serialisable) descriptions of messages and documents, and their
// materialisation into real sdk.Msg values.

import (
	"math/big"
	"encoding/binary"
	"encoding/hex"
	"encoding/json"
	"fmt"
	"strconv"
	"strings"
	"time"
	"unicode/utf8"

	"github.com/btcsuite/btcutil/base58"
	tmsecp "github.com/cometbft/cometbft/crypto/secp256k1"
	codectypes "github.com/cosmos/cosmos-sdk/codec/types"
	sdk "github.com/cosmos/cosmos-sdk/types"
	vestingtypes "github.com/cosmos/cosmos-sdk/x/auth/vesting/types"
	"github.com/cosmos/cosmos-sdk/x/authz"
	authtypes "github.com/cosmos/cosmos-sdk/x/auth/types"
	consensustypes "github.com/cosmos/cosmos-sdk/x/consensus/types"
	distrtypes "github.com/cosmos/cosmos-sdk/x/distribution/types"
	crisistypes "github.com/cosmos/cosmos-sdk/x/crisis/types"
	govv1 "github.com/cosmos/cosmos-sdk/x/gov/types/v1"
	stakingtypes "github.com/cosmos/cosmos-sdk/x/staking/types"
	"github.com/cosmos/cosmos-sdk/x/group"
	groupkeeper "github.com/cosmos/cosmos-sdk/x/group/keeper"
	paramproposal "github.com/cosmos/cosmos-sdk/x/params/types/proposal"
	upgradetypes "github.com/cosmos/cosmos-sdk/x/upgrade/types"
	tmproto "github.com/cometbft/cometbft/proto/tendermint/types"
	banktypes "github.com/cosmos/cosmos-sdk/x/bank/types"
	aoltypes "github.com/medibloc/panacea-core/v2/x/aol/types"
	didtypes "github.com/medibloc/panacea-core/v2/x/did/types"
	pnfttypes "github.com/medibloc/panacea-core/v2/x/pnft/types"
)

type VMSpec struct {
	Id         string `json:"id"`
	Type       string `json:"type"`
	Controller string `json:"controller,omitempty"`
	Key        int    `json:"key"`              // index into the DID key table; -1 = use RawKey
	RawKey     string `json:"raw_key,omitempty"` // literal publicKeyBase58
}

type RelSpec struct {
	Ref   string  `json:"ref,omitempty"`
	VM    *VMSpec `json:"vm,omitempty"`
	Unset bool    `json:"unset,omitempty"` // an entry whose oneof is not set at all (tag + zero length on the wire)
}

type SvcSpec struct{ Id, Type, Endpoint string }

type DocSpec struct {
	Id         string    `json:"id"`
	NoContext  bool      `json:"no_context,omitempty"`
	EmptyContexts   bool `json:"empty_contexts,omitempty"`   // contexts present with zero entries
	EmptyController bool `json:"empty_controller,omitempty"` // controller present with zero entries
	Contexts   []string  `json:"contexts,omitempty"` // nil => [W3C]
	Controller []string  `json:"controller,omitempty"`
	VMs        []VMSpec  `json:"vms,omitempty"`
	Auth       []RelSpec `json:"auth,omitempty"`
	Assertion  []RelSpec `json:"assertion,omitempty"`
	KeyAgree   []RelSpec `json:"key_agreement,omitempty"`
	CapInv     []RelSpec `json:"cap_inv,omitempty"`
	CapDel     []RelSpec `json:"cap_del,omitempty"`
	Services   []SvcSpec `json:"services,omitempty"`
}

// ProofSpec says how the DID proof is produced at execution time.
type ProofSpec struct {
	Key      int    `json:"key"`                 // DID key table index used to sign
	MethodID string `json:"method_id"`           // verification_method_id field
	Seq      string `json:"seq"`                 // "cur" | "cur+1" | "cur-1" | "<n>"
	Content  string `json:"content,omitempty"`   // "" (= the message's own content) | "other" (a different document) | "did:<x>" (deactivation content for another did)
	RawSig   string `json:"raw_sig,omitempty"`   // hex: use these bytes as the signature
	NoSig    bool   `json:"no_sig,omitempty"`    // empty signature
	SeqOfDID string `json:"seq_of_did,omitempty"` // take "cur" from this DID instead of the message's
	ContentStored bool `json:"content_stored,omitempty"` // the proof is made over the document currently stored for the DID
	HighS    bool   `json:"high_s,omitempty"`    // the other (r, N-s) form of the genuine signature: the same ECDSA signature in its malleable, non-canonical encoding
	ContentDoc *DocSpec `json:"content_doc,omitempty"` // the proof is made over THIS document (a genuine proof of another document of the same DID, transplanted)
}

type CoinSpec struct {
	Denom  string `json:"d"`
	Amount string `json:"a"`
}

type MsgSpec struct {
	T      string            `json:"t"`
	F      FMap              `json:"f,omitempty"`
	Key    string            `json:"key,omitempty"`   // record key (hex)
	Value  string            `json:"value,omitempty"` // record value (hex)
	Doc    *DocSpec          `json:"doc,omitempty"`
	NilDoc bool              `json:"nil_doc,omitempty"`
	Proof  *ProofSpec        `json:"proof,omitempty"`
	Inner  []MsgSpec         `json:"inner,omitempty"` // authz.Exec
	Coins  []CoinSpec        `json:"coins,omitempty"`
	Coins2 []CoinSpec        `json:"coins2,omitempty"` // second amount (gov.SubmitSpend: what the proposal spends; Coins is its deposit)
	// vesting
	EndOffsetS int64 `json:"end_s,omitempty"` // vesting end = block time + this
	Delayed    bool  `json:"delayed,omitempty"`
	// authz grant
	ExpOffsetMs int64 `json:"exp_ms,omitempty"` // 0 = no expiration; else block time + this (ms)
	// bank multisend outputs: F["to0"], F["to1"]...
	OfTx int `json:"of_tx,omitempty"` // "reuse": materialise as the (already built) message #OfMsg of tx OfTx
	OfMsg int `json:"of_msg,omitempty"`
}

func (s *MsgSpec) f(k string) string { return s.F[k] }

// BuildCtx supplies what materialisation needs at execution time.
type BuildCtx struct {
	Env       *Env
	BlockTime time.Time
	DidSeq    func(did string) (uint64, bool) // current sequence per the model (false: unknown DID)
	Built     func(tx, msg int) sdk.Msg       // previously built messages (for reuse/replay)
	DidDoc    func(did string) *didtypes.DIDDocument // currently stored document per the model (nil: none)
}

func coins(cs []CoinSpec) sdk.Coins {
	var out sdk.Coins
	for _, c := range cs {
		a, ok := sdk.NewIntFromString(c.Amount)
		if !ok {
			a = sdk.ZeroInt()
		}
		out = append(out, sdk.Coin{Denom: c.Denom, Amount: a})
	}
	return out // deliberately not sanitised: the adversary may send odd coin lists
}

func (e *Env) buildVM(v *VMSpec) *didtypes.VerificationMethod {
	pk := v.RawKey
	if v.Key >= 0 {
		pk = base58.Encode(e.DidKeys[v.Key%len(e.DidKeys)].PubKey().Bytes())
	}
	return &didtypes.VerificationMethod{Id: v.Id, Type: v.Type, Controller: v.Controller, PublicKeyBase58: pk}
}

func (e *Env) buildRels(rs []RelSpec) []didtypes.VerificationRelationship {
	var out []didtypes.VerificationRelationship
	for i := range rs {
		if rs[i].Unset {
			out = append(out, didtypes.VerificationRelationship{})
		} else if rs[i].VM != nil {
			out = append(out, didtypes.NewVerificationRelationshipDedicated(*e.buildVM(rs[i].VM)))
		} else {
			out = append(out, didtypes.NewVerificationRelationship(rs[i].Ref))
		}
	}
	return out
}

func (e *Env) BuildDoc(d *DocSpec) *didtypes.DIDDocument {
	if d == nil {
		return nil
	}
	doc := &didtypes.DIDDocument{Id: d.Id}
	if !d.NoContext {
		cs := d.Contexts
		if cs == nil {
			cs = []string{w3cContext}
		}
		j := didtypes.JSONStringOrStrings(cs)
		doc.Contexts = &j
	}
	if d.EmptyContexts {
		j := didtypes.JSONStringOrStrings{}
		doc.Contexts = &j
	}
	if d.Controller != nil {
		j := didtypes.JSONStringOrStrings(d.Controller)
		doc.Controller = &j
	}
	if d.EmptyController {
		j := didtypes.JSONStringOrStrings{} // the property is present and lists nothing
		doc.Controller = &j
	}
	for i := range d.VMs {
		doc.VerificationMethods = append(doc.VerificationMethods, e.buildVM(&d.VMs[i]))
	}
	doc.Authentications = e.buildRels(d.Auth)
	doc.AssertionMethods = e.buildRels(d.Assertion)
	doc.KeyAgreements = e.buildRels(d.KeyAgree)
	doc.CapabilityInvocations = e.buildRels(d.CapInv)
	doc.CapabilityDelegations = e.buildRels(d.CapDel)
	for _, s := range d.Services {
		doc.Services = append(doc.Services, &didtypes.Service{Id: s.Id, Type: s.Type, ServiceEndpoint: s.Endpoint})
	}
	return cloneDoc(doc) // canonical form (what a decoder on the other side would see)
}

func (bc *BuildCtx) proof(p *ProofSpec, did string, content *didtypes.DIDDocument) (string, []byte) {
	if p == nil {
		return "", nil
	}
	if p.NoSig {
		return p.MethodID, nil
	}
	if p.RawSig != "" {
		bz, _ := hex.DecodeString(p.RawSig)
		return p.MethodID, bz
	}
	seqDid := did
	if p.SeqOfDID != "" {
		seqDid = p.SeqOfDID
	}
	cur, _ := bc.DidSeq(seqDid)
	var seq uint64
	switch p.Seq {
	case "", "cur":
		seq = cur
	case "cur+1":
		seq = cur + 1
	case "cur-1":
		seq = cur - 1
	default:
		n, _ := strconv.ParseUint(p.Seq, 10, 64)
		seq = n
	}
	c := content
	switch {
	case p.ContentStored && bc.DidDoc != nil && bc.DidDoc(did) != nil:
		c = bc.DidDoc(did)
	case p.ContentDoc != nil:
		c = bc.Env.BuildDoc(p.ContentDoc)
	case p.Content == "other":
		c = &didtypes.DIDDocument{Id: did + "x"}
	case len(p.Content) > 4 && p.Content[:4] == "did:":
		c = &didtypes.DIDDocument{Id: p.Content}
	}
	if c == nil {
		c = &didtypes.DIDDocument{}
	}
	key := bc.Env.DidKeys[p.Key%len(bc.Env.DidKeys)]
	sig, err := key.Sign(DidSignBytes(c, seq))
	if err != nil {
		panic(err)
	}
	if p.HighS && len(sig) == 64 {
		// secp256k1 group order N; s' = N - s
		n, _ := new(big.Int).SetString("FFFFFFFFFFFFFFFFFFFFFFFFFFFFFFFEBAAEDCE6AF48A03BBFD25E8CD0364141", 16)
		sv := new(big.Int).SetBytes(sig[32:])
		sv.Sub(n, sv)
		out := append([]byte(nil), sig[:32]...)
		sb := sv.Bytes()
		out = append(out, make([]byte, 32-len(sb))...)
		out = append(out, sb...)
		sig = out
	}
	return p.MethodID, sig
}

// Build materialises a MsgSpec. It never fails: malformed specs yield malformed messages (on purpose).
func (bc *BuildCtx) Build(s *MsgSpec) sdk.Msg {
	e := bc.Env
	switch s.T {
	case "reuse":
		if m := bc.Built(s.OfTx, s.OfMsg); m != nil {
			return m
		}
		return &aoltypes.MsgCreateTopicRequest{} // dangling reference after minimisation: a harmless invalid message
	case "retarget":
		// an observed DID message replayed under a different did field: same document, method id and signature
		switch t := bc.Built(s.OfTx, s.OfMsg).(type) {
		case *didtypes.MsgCreateDIDRequest:
			c := *t
			c.Did = s.f("did")
			if s.f("from") != "" {
				c.FromAddress = s.f("from")
			}
			if s.f("as_update") != "" {
				return &didtypes.MsgUpdateDIDRequest{Did: c.Did, Document: c.Document, VerificationMethodId: c.VerificationMethodId, Signature: c.Signature, FromAddress: c.FromAddress}
			}
			return &c
		case *didtypes.MsgUpdateDIDRequest:
			c := *t
			c.Did = s.f("did")
			if s.f("from") != "" {
				c.FromAddress = s.f("from")
			}
			return &c
		case *didtypes.MsgDeactivateDIDRequest:
			c := *t
			c.Did = s.f("did")
			return &c
		}
		return &aoltypes.MsgCreateTopicRequest{}
	case "aol.CreateTopic":
		return &aoltypes.MsgCreateTopicRequest{TopicName: s.f("topic"), Description: s.f("desc"), OwnerAddress: s.f("owner")}
	case "aol.AddWriter":
		return &aoltypes.MsgAddWriterRequest{TopicName: s.f("topic"), Moniker: s.f("moniker"), Description: s.f("desc"), WriterAddress: s.f("writer"), OwnerAddress: s.f("owner")}
	case "aol.DeleteWriter":
		return &aoltypes.MsgDeleteWriterRequest{TopicName: s.f("topic"), WriterAddress: s.f("writer"), OwnerAddress: s.f("owner")}
	case "aol.AddRecord":
		k, _ := hex.DecodeString(s.Key)
		v, _ := hex.DecodeString(s.Value)
		return &aoltypes.MsgAddRecordRequest{TopicName: s.f("topic"), Key: k, Value: v, WriterAddress: s.f("writer"), OwnerAddress: s.f("owner"), FeePayerAddress: s.f("fee_payer")}
	case "did.Create":
		var doc *didtypes.DIDDocument
		if !s.NilDoc {
			doc = e.BuildDoc(s.Doc)
			if doc == nil {
				doc = &didtypes.DIDDocument{}
			}
		}
		mid, sig := bc.proof(s.Proof, s.f("did"), doc)
		return &didtypes.MsgCreateDIDRequest{Did: s.f("did"), Document: doc, VerificationMethodId: mid, Signature: sig, FromAddress: s.f("from")}
	case "did.Update":
		var doc *didtypes.DIDDocument
		if s.f("same_doc") != "" && bc.DidDoc != nil && bc.DidDoc(s.f("did")) != nil {
			doc = cloneDoc(bc.DidDoc(s.f("did"))) // a no-op update: exactly the stored document
		} else if !s.NilDoc {
			doc = e.BuildDoc(s.Doc)
			if doc == nil {
				doc = &didtypes.DIDDocument{}
			}
		}
		mid, sig := bc.proof(s.Proof, s.f("did"), doc)
		return &didtypes.MsgUpdateDIDRequest{Did: s.f("did"), Document: doc, VerificationMethodId: mid, Signature: sig, FromAddress: s.f("from")}
	case "did.Deactivate":
		mid, sig := bc.proof(s.Proof, s.f("did"), &didtypes.DIDDocument{Id: s.f("did")})
		return &didtypes.MsgDeactivateDIDRequest{Did: s.f("did"), VerificationMethodId: mid, Signature: sig, FromAddress: s.f("from")}
	case "pnft.CreateDenom":
		return &pnfttypes.MsgCreateDenomRequest{Id: s.f("id"), Name: s.f("name"), Symbol: s.f("symbol"), Description: s.f("desc"), Uri: s.f("uri"), UriHash: s.f("uri_hash"), Data: s.f("data"), Creator: s.f("creator")}
	case "pnft.UpdateDenom":
		return &pnfttypes.MsgUpdateDenomRequest{Id: s.f("id"), Name: s.f("name"), Symbol: s.f("symbol"), Description: s.f("desc"), Uri: s.f("uri"), UriHash: s.f("uri_hash"), Data: s.f("data"), Updater: s.f("updater")}
	case "pnft.DeleteDenom":
		return &pnfttypes.MsgDeleteDenomRequest{Id: s.f("id"), Remover: s.f("remover")}
	case "pnft.TransferDenom":
		return &pnfttypes.MsgTransferDenomRequest{Id: s.f("id"), Sender: s.f("sender"), Receiver: s.f("receiver")}
	case "pnft.Mint":
		return &pnfttypes.MsgMintPNFTRequest{DenomId: s.f("denom"), Id: s.f("id"), Name: s.f("name"), Description: s.f("desc"), Uri: s.f("uri"), UriHash: s.f("uri_hash"), Data: s.f("data"), Creator: s.f("creator")}
	case "pnft.Transfer":
		return &pnfttypes.MsgTransferPNFTRequest{DenomId: s.f("denom"), Id: s.f("id"), Sender: s.f("sender"), Receiver: s.f("receiver")}
	case "pnft.Burn":
		return &pnfttypes.MsgBurnPNFTRequest{DenomId: s.f("denom"), Id: s.f("id"), Burner: s.f("burner")}
	case "bank.Send":
		return &banktypes.MsgSend{FromAddress: s.f("from"), ToAddress: s.f("to"), Amount: coins(s.Coins)}
	case "bank.MultiSend":
		cs := coins(s.Coins)
		n, _ := strconv.Atoi(s.f("n"))
		if n < 1 {
			n = 1
		}
		var outs []banktypes.Output
		total := sdk.Coins{}
		for i := 0; i < n; i++ {
			outs = append(outs, banktypes.Output{Address: s.f("to" + strconv.Itoa(i)), Coins: cs})
			total = total.Add(cs...)
		}
		return &banktypes.MsgMultiSend{Inputs: []banktypes.Input{{Address: s.f("from"), Coins: total}}, Outputs: outs}
	case "vesting.Create":
		return &vestingtypes.MsgCreateVestingAccount{FromAddress: s.f("from"), ToAddress: s.f("to"), Amount: coins(s.Coins), EndTime: bc.BlockTime.Unix() + s.EndOffsetS, Delayed: s.Delayed}
	case "vesting.CreatePermanent":
		return &vestingtypes.MsgCreatePermanentLockedAccount{FromAddress: s.f("from"), ToAddress: s.f("to"), Amount: coins(s.Coins)}
	case "vesting.CreatePeriodic":
		half := s.EndOffsetS / 2
		if half < 1 {
			half = 1
		}
		cs := coins(s.Coins)
		return &vestingtypes.MsgCreatePeriodicVestingAccount{FromAddress: s.f("from"), ToAddress: s.f("to"), StartTime: bc.BlockTime.Unix(),
			VestingPeriods: []vestingtypes.Period{{Length: half, Amount: cs}, {Length: half, Amount: cs}}}
	case "gov.SubmitParams":
		// a governance proposal that changes the consensus parameters (block.max_gas / block.max_bytes)
		maxGas, _ := strconv.ParseInt(s.f("max_gas"), 10, 64)
		maxBytes, _ := strconv.ParseInt(s.f("max_bytes"), 10, 64)
		inner := &consensustypes.MsgUpdateParams{
			Authority: sdk.AccAddress(authtypes.NewModuleAddress("gov")).String(),
			Block:     &tmproto.BlockParams{MaxBytes: maxBytes, MaxGas: maxGas},
			Evidence:  &tmproto.EvidenceParams{MaxAgeNumBlocks: 302400, MaxAgeDuration: 504 * time.Hour, MaxBytes: 10000},
			Validator: &tmproto.ValidatorParams{PubKeyTypes: []string{"ed25519"}},
		}
		proposer, _ := sdk.AccAddressFromBech32(s.f("proposer"))
		m, err := govv1.NewMsgSubmitProposal([]sdk.Msg{inner}, coins(s.Coins), proposer.String(), s.f("metadata"), "consensus parameters", "change block limits")
		if err != nil {
			panic(err)
		}
		return m
	case "staking.Delegate":
		return stakingtypes.NewMsgDelegate(mustAcc(s.f("delegator")), bc.Env.ValOper(), sdk.NewInt64Coin(sdk.DefaultBondDenom, atoi64(s.f("amount"))))
	case "staking.Undelegate":
		return stakingtypes.NewMsgUndelegate(mustAcc(s.f("delegator")), bc.Env.ValOper(), sdk.NewInt64Coin(sdk.DefaultBondDenom, atoi64(s.f("amount"))))
	case "distr.WithdrawReward":
		return distrtypes.NewMsgWithdrawDelegatorReward(mustAcc(s.f("delegator")), bc.Env.ValOper())
	case "crisis.VerifyInvariant":
		return &crisistypes.MsgVerifyInvariant{Sender: s.f("sender"), InvariantModuleName: s.f("module"), InvariantRoute: s.f("route")}
	case "gov.SubmitSendEnabled":
		// a governance proposal that switches plain transfers of one denomination off (or on again)
		inner := &banktypes.MsgSetSendEnabled{Authority: sdk.AccAddress(authtypes.NewModuleAddress("gov")).String(),
			SendEnabled: []*banktypes.SendEnabled{{Denom: s.f("denom"), Enabled: s.f("enabled") == "true"}}}
		proposer, _ := sdk.AccAddressFromBech32(s.f("proposer"))
		m, err := govv1.NewMsgSubmitProposal([]sdk.Msg{inner}, coins(s.Coins), proposer.String(), "", "send enabled", "switch")
		if err != nil {
			panic(err)
		}
		return m
	case "gov.SubmitSpend":
		// a governance proposal that spends from the community pool (to any address, the burn address included)
		inner := &distrtypes.MsgCommunityPoolSpend{Authority: sdk.AccAddress(authtypes.NewModuleAddress("gov")).String(), Recipient: s.f("recipient"), Amount: coins(s.Coins2)}
		proposer, _ := sdk.AccAddressFromBech32(s.f("proposer"))
		m, err := govv1.NewMsgSubmitProposal([]sdk.Msg{inner}, coins(s.Coins), proposer.String(), "", "community pool spend", "spend")
		if err != nil {
			panic(err)
		}
		return m
	case "gov.SubmitLegacyParam":
		content := paramproposal.NewParameterChangeProposal("params", "change", []paramproposal.ParamChange{paramproposal.NewParamChange(s.f("subspace"), s.f("key"), s.f("value"))})
		proposer, _ := sdk.AccAddressFromBech32(s.f("proposer"))
		lc, err := govv1.NewLegacyContent(content, sdk.AccAddress(authtypes.NewModuleAddress("gov")).String())
		if err != nil {
			panic(err)
		}
		m, err := govv1.NewMsgSubmitProposal([]sdk.Msg{lc}, coins(s.Coins), proposer.String(), "", "params", "change")
		if err != nil {
			panic(err)
		}
		return m
	case "gov.SubmitUpgrade":
		h, _ := strconv.ParseInt(s.f("height"), 10, 64)
		inner := &upgradetypes.MsgSoftwareUpgrade{Authority: sdk.AccAddress(authtypes.NewModuleAddress("gov")).String(), Plan: upgradetypes.Plan{Name: s.f("name"), Height: h, Info: "panasim"}}
		proposer, _ := sdk.AccAddressFromBech32(s.f("proposer"))
		m, err := govv1.NewMsgSubmitProposal([]sdk.Msg{inner}, coins(s.Coins), proposer.String(), "", "software upgrade", "upgrade to "+s.f("name"))
		if err != nil {
			panic(err)
		}
		return m
	case "gov.Vote":
		id, _ := strconv.ParseUint(s.f("proposal"), 10, 64)
		opt := govv1.OptionYes
		if s.f("option") == "no" {
			opt = govv1.OptionNo
		}
		return &govv1.MsgVote{ProposalId: id, Voter: s.f("voter"), Option: opt}
	case "authz.Grant":
		var exp *time.Time
		if s.ExpOffsetMs != 0 {
			t := bc.BlockTime.Add(time.Duration(s.ExpOffsetMs) * time.Millisecond)
			exp = &t
		}
		granter, _ := sdk.AccAddressFromBech32(s.f("granter"))
		grantee, _ := sdk.AccAddressFromBech32(s.f("grantee"))
		g, err := authz.NewMsgGrant(granter, grantee, authz.NewGenericAuthorization(s.f("url")), exp)
		if err != nil {
			panic(err)
		}
		return g
	case "authz.Revoke":
		return &authz.MsgRevoke{Granter: s.f("granter"), Grantee: s.f("grantee"), MsgTypeUrl: s.f("url")}
	case "group.CreateWithPolicy":
		// a group of one (the admin, weight 1) with a threshold-1 decision policy: its proposals can be executed at once
		dp := group.NewThresholdDecisionPolicy("1", time.Hour, 0)
		m, err := group.NewMsgCreateGroupWithPolicy(s.f("admin"), []group.MemberRequest{{Address: s.f("admin"), Weight: "1"}}, "", "", false, dp)
		if err != nil {
			panic(err)
		}
		return m
	case "group.Propose":
		// a proposal of that group's policy account carrying custom messages (the policy account is their actor), executed
		// right away (EXEC_TRY): x/group records the outcome of the execution - the error text included - in an event of
		// the (successful) transaction
		seq, _ := strconv.ParseUint(s.f("policy_seq"), 10, 64)
		policy := GroupPolicyAddr(seq)
		var inner []sdk.Msg
		for i := range s.Inner {
			in := s.Inner[i]
			in.F = FMap{}
			for k, v := range s.Inner[i].F {
				if v == "@policy" {
					v = policy
				}
				in.F[k] = v
			}
			inner = append(inner, bc.Build(&in))
		}
		m, err := group.NewMsgSubmitProposal(policy, []string{s.f("proposer")}, inner, "", group.Exec_EXEC_TRY, "t", "s")
		if err != nil {
			panic(err)
		}
		return m
	case "authz.Exec":
		var anys []*codectypes.Any
		for i := range s.Inner {
			m := bc.Build(&s.Inner[i])
			a, err := codectypes.NewAnyWithValue(m)
			if err != nil {
				panic(err)
			}
			anys = append(anys, a)
		}
		return &authz.MsgExec{Grantee: s.f("grantee"), Msgs: anys}
	}
	panic(fmt.Sprintf("unknown message spec type %q", s.T))
}

var _ = tmsecp.PubKeySize

// FMap is the field table of a message spec. Values are arbitrary byte strings (hostile messages carry invalid UTF-8);
// encoding/json would silently replace such bytes, and a replayed script would not be the script that ran, so values that
// are not valid UTF-8 travel as "~hex~<hex>".
type FMap map[string]string

func (f FMap) MarshalJSON() ([]byte, error) {
	out := make(map[string]string, len(f))
	for k, v := range f {
		if !utf8.ValidString(v) || strings.HasPrefix(v, "~hex~") {
			v = "~hex~" + hex.EncodeToString([]byte(v))
		}
		out[k] = v
	}
	return json.Marshal(out)
}

func (f *FMap) UnmarshalJSON(b []byte) error {
	var in map[string]string
	if err := json.Unmarshal(b, &in); err != nil {
		return err
	}
	out := make(FMap, len(in))
	for k, v := range in {
		if strings.HasPrefix(v, "~hex~") {
			if raw, err := hex.DecodeString(v[5:]); err == nil {
				v = string(raw)
			}
		}
		out[k] = v
	}
	*f = out
	return nil
}

// GroupPolicyAddr: the account x/group derives for the n-th group policy created on a chain (n = 1, 2, ...).
func GroupPolicyAddr(n uint64) string {
	dk := make([]byte, 8)
	binary.BigEndian.PutUint64(dk, n)
	ac, err := authtypes.NewModuleCredential(group.ModuleName, []byte{groupkeeper.GroupPolicyTablePrefix}, dk)
	if err != nil {
		panic(err)
	}
	return sdk.AccAddress(ac.Address()).String()
}

func mustAcc(a string) sdk.AccAddress { x, _ := sdk.AccAddressFromBech32(a); return x }
func atoi64(v string) int64          { n, _ := strconv.ParseInt(v, 10, 64); return n }

// ValOper: the operator address of the simulated chain's validator (GenesisStateWithValSet derives it from the consensus address).
func (e *Env) ValOper() sdk.ValAddress { return sdk.ValAddress(e.Val.Address) }
