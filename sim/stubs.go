package main

import "fmt"

func checkC20(tier string) int            { return checkChain("C20", tier) }
func replayKS(bz []byte) int              { fmt.Println("ks replay not built yet"); return 2 }
func selftestMain(args []string) int      { fmt.Println("selftest not built yet"); return 2 }
func ksWorkerMain(args []string) int      { return 2 }
