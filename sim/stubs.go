package main

import (
	"bufio"
	"encoding/json"
	"fmt"
	"os"
	"os/exec"
	"strconv"
	"strings"
	"sync"
)

// selftest: determinism of the machinery. Every sampled seed is executed in separate OS processes at
// GOMAXPROCS 1, 4 and 16 (and twice at 4); all event-trace hashes must agree. The key-store engine's
// schedule traces are compared the same way. Exit 0 = deterministic, 2 = divergence (machinery trouble).
func selftestMain(args []string) int {
	n := 40
	if len(args) > 0 {
		if v, err := strconv.Atoi(args[0]); err == nil {
			n = v
		}
	}
	self, _ := os.Executable()
	props := []string{"C01", "C03", "C06", "C07", "C08", "C09", "C10", "C12", "C13", "C14", "C16", "C17", "C19", "C20"}
	type job struct {
		prop string
		idx  int
		ks   bool
	}
	var jobs []job
	for i := 0; i < n; i++ {
		jobs = append(jobs, job{prop: props[i%len(props)], idx: i})
	}
	for i := 0; i < n/2; i++ {
		jobs = append(jobs, job{ks: true, idx: i})
	}
	runOne := func(j job, gmp string) (string, error) {
		var cmd *exec.Cmd
		if j.ks {
			cmd = exec.Command(self, "ksworker", "--base", "424242", "--start", fmt.Sprint(j.idx), "--stride", "1000000", "--budget", "0.001")
		} else {
			cmd = exec.Command(self, "worker", "--prop", j.prop, "--tier", "quick", "--base", "424242", "--start", fmt.Sprint(j.idx), "--count", "1", "--budget", "1000")
		}
		cmd.Env = append(os.Environ(), "GOMAXPROCS="+gmp)
		out, err := cmd.Output()
		if err != nil {
			return "", err
		}
		sc := bufio.NewScanner(strings.NewReader(string(out)))
		sc.Buffer(make([]byte, 1<<20), 1<<26)
		for sc.Scan() {
			var m map[string]interface{}
			if json.Unmarshal(sc.Bytes(), &m) == nil {
				if t, ok := m["trace"].(string); ok {
					return t, nil
				}
			}
		}
		return "", fmt.Errorf("no result line")
	}
	var mu sync.Mutex
	bad := 0
	done := 0
	sem := make(chan struct{}, 8)
	var wg sync.WaitGroup
	for _, j := range jobs {
		wg.Add(1)
		sem <- struct{}{}
		go func(j job) {
			defer wg.Done()
			defer func() { <-sem }()
			var hs []string
			for _, g := range []string{"1", "4", "16", "4"} {
				h, err := runOne(j, g)
				if err != nil {
					h = "ERR:" + err.Error()
				}
				hs = append(hs, h)
			}
			mu.Lock()
			done++
			same := hs[0] == hs[1] && hs[1] == hs[2] && hs[2] == hs[3] && !strings.HasPrefix(hs[0], "ERR")
			if !same {
				bad++
				fmt.Printf("DIVERGENCE job=%+v traces=%v\n", j, hs)
			}
			mu.Unlock()
		}(j)
	}
	wg.Wait()
	fmt.Printf("selftest: %d jobs x 4 processes (GOMAXPROCS 1/4/16/4), divergent=%d\n", done, bad)
	if bad > 0 {
		return 2
	}
	return 0
}
