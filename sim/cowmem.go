package main

import (
	"bytes"
	"sync/atomic"

	dbm "github.com/cometbft/cometbft-db"
	"github.com/google/btree"
)

// cowMem is the ordered key-value table under the simulated disk. Like goleveldb (and unlike cometbft-db's MemDB)
// it gives readers what a real disk database gives them while a writer is at work:
//   - a batch becomes visible to readers all at once (Get/Has/Iterator never see half of it);
//   - an iterator walks the snapshot that was current when it was created, whatever is written meanwhile.
//
// It is a copy-on-write B-tree: a writer clones the current tree (O(1), lazily), changes the clone and publishes it
// with one atomic store. Writers are serialised by SimDB.mu; readers take no lock.
type cowMem struct {
	cur atomic.Pointer[btree.BTreeG[kvItem]]
}

type kvItem struct{ k, v []byte }

func kvLess(a, b kvItem) bool { return bytes.Compare(a.k, b.k) < 0 }

func newCowMem() *cowMem {
	m := &cowMem{}
	m.cur.Store(btree.NewG[kvItem](32, kvLess))
	return m
}

func (m *cowMem) Get(k []byte) ([]byte, error) {
	if len(k) == 0 {
		return nil, errKeyEmpty
	}
	if it, ok := m.cur.Load().Get(kvItem{k: k}); ok {
		return it.v, nil
	}
	return nil, nil
}

func (m *cowMem) Has(k []byte) (bool, error) {
	if len(k) == 0 {
		return false, errKeyEmpty
	}
	return m.cur.Load().Has(kvItem{k: k}), nil
}

// begin/commit bracket a group of writes that readers see at once. Callers hold SimDB.mu.
func (m *cowMem) begin() *btree.BTreeG[kvItem] { return m.cur.Load().Clone() }
func (m *cowMem) commit(t *btree.BTreeG[kvItem]) { m.cur.Store(t) }

func (m *cowMem) Set(k, v []byte) error {
	if len(k) == 0 {
		return errKeyEmpty
	}
	if v == nil {
		return errValueNil
	}
	t := m.begin()
	t.ReplaceOrInsert(kvItem{k: cpBytes(k), v: cpBytes(v)})
	m.commit(t)
	return nil
}

func (m *cowMem) Delete(k []byte) error {
	if len(k) == 0 {
		return errKeyEmpty
	}
	t := m.begin()
	t.Delete(kvItem{k: k})
	m.commit(t)
	return nil
}

// snapshot returns an independent table with the same content (O(1)). Callers hold SimDB.mu.
func (m *cowMem) snapshot() *cowMem {
	n := &cowMem{}
	n.cur.Store(m.cur.Load().Clone())
	return n
}

func (m *cowMem) Iterator(start, end []byte) (dbm.Iterator, error) {
	if (start != nil && len(start) == 0) || (end != nil && len(end) == 0) {
		return nil, errKeyEmpty
	}
	it := &cowIter{t: m.cur.Load(), start: start, end: end}
	it.fill(nil)
	return it, nil
}

func (m *cowMem) ReverseIterator(start, end []byte) (dbm.Iterator, error) {
	if (start != nil && len(start) == 0) || (end != nil && len(end) == 0) {
		return nil, errKeyEmpty
	}
	it := &cowIter{t: m.cur.Load(), start: start, end: end, rev: true}
	it.fill(nil)
	return it, nil
}

// cowIter walks one immutable snapshot in chunks (the B-tree only offers callback iteration).
type cowIter struct {
	t          *btree.BTreeG[kvItem]
	start, end []byte // [start, end)
	rev        bool
	buf        []kvItem
	pos        int
	done       bool // no items beyond buf
	closed     bool
}

const cowChunk = 48

// fill loads the next chunk after `last` (nil: from the beginning of the domain).
func (it *cowIter) fill(last []byte) {
	it.buf = it.buf[:0]
	it.pos = 0
	n := 0
	collect := func(x kvItem) bool {
		if last != nil && bytes.Equal(x.k, last) {
			return true
		}
		if it.rev {
			if it.end != nil && bytes.Compare(x.k, it.end) >= 0 {
				return true // end is exclusive
			}
			if it.start != nil && bytes.Compare(x.k, it.start) < 0 {
				return false
			}
		} else {
			if it.start != nil && bytes.Compare(x.k, it.start) < 0 {
				return true
			}
			if it.end != nil && bytes.Compare(x.k, it.end) >= 0 {
				return false
			}
		}
		it.buf = append(it.buf, x)
		n++
		return n < cowChunk
	}
	if it.rev {
		switch {
		case last != nil:
			it.t.DescendLessOrEqual(kvItem{k: last}, collect)
		case it.end != nil:
			it.t.DescendLessOrEqual(kvItem{k: it.end}, collect)
		default:
			it.t.Descend(collect)
		}
	} else {
		switch {
		case last != nil:
			it.t.AscendGreaterOrEqual(kvItem{k: last}, collect)
		case it.start != nil:
			it.t.AscendGreaterOrEqual(kvItem{k: it.start}, collect)
		default:
			it.t.Ascend(collect)
		}
	}
	if n < cowChunk {
		it.done = true
	}
}

func (it *cowIter) Domain() ([]byte, []byte) { return it.start, it.end }
func (it *cowIter) Valid() bool              { return !it.closed && it.pos < len(it.buf) }
func (it *cowIter) Next() {
	if !it.Valid() {
		panic("iterator is invalid")
	}
	it.pos++
	if it.pos >= len(it.buf) && !it.done {
		last := it.buf[len(it.buf)-1].k
		it.fill(last)
	}
}
func (it *cowIter) Key() []byte {
	if !it.Valid() {
		panic("iterator is invalid")
	}
	return it.buf[it.pos].k
}
func (it *cowIter) Value() []byte {
	if !it.Valid() {
		panic("iterator is invalid")
	}
	return it.buf[it.pos].v
}
func (it *cowIter) Error() error { return nil }
func (it *cowIter) Close() error { it.closed = true; it.buf = nil; return nil }
