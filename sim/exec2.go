package main

import (
	"bytes"
	"crypto/sha256"
	"encoding/base64"
	"encoding/hex"
	"encoding/json"
	"fmt"
	"os"
	"path/filepath"
	"sort"
	"strings"
	"time"

	abci "github.com/cometbft/cometbft/abci/types"
	tmproto "github.com/cometbft/cometbft/proto/tendermint/types"
	sdk "github.com/cosmos/cosmos-sdk/types"
	"github.com/cosmos/cosmos-sdk/types/module"
	"github.com/cosmos/cosmos-sdk/types/query"
	"github.com/medibloc/panacea-core/v2/app"
	aoltypes "github.com/medibloc/panacea-core/v2/x/aol/types"
	didtypes "github.com/medibloc/panacea-core/v2/x/did/types"
	pnfttypes "github.com/medibloc/panacea-core/v2/x/pnft/types"
)

// ---------------------------------------------------------------------------------------------
// after every Commit on the reference replica

func flatHash(f map[string]string) string {
	keys := make([]string, 0, len(f))
	for k := range f {
		keys = append(keys, k)
	}
	sort.Strings(keys)
	h := sha256.New()
	for _, k := range keys {
		h.Write([]byte(k))
		h.Write([]byte{0})
		h.Write([]byte(f[k]))
		h.Write([]byte{1})
	}
	return hex.EncodeToString(h.Sum(nil)[:12])
}

func (e *Exec) afterCommitChecks(rec *BlockRec) {
	r0 := e.R[0]
	h := rec.B.Height
	ex := ExtractState(r0.CommittedStores())
	for _, p := range ex.Problems {
		e.viol(p.Prop, p.Class, p.Entity, "after Commit(%d): %s", h, p.Detail)
	}
	if os.Getenv("PANASIM_DEBUG_GOV") != "" {
		ctx := r0.App.NewContext(true, e.Env.Header(rec.B))
		for _, p := range r0.App.GovKeeper.GetProposals(ctx) {
			e.Trace.Ev("DEBUG proposal %d status=%s tally=%v end=%v now=%v", p.Id, p.Status, p.FinalTallyResult, p.VotingEndTime, rec.B.Time)
		}
	}
	func() { // probe: a governance proposal changed the consensus parameters in this block
		defer func() {
			if r := recover(); r != nil && os.Getenv("PANASIM_DEBUG_GOV") != "" {
				e.Trace.Ev("DEBUG params probe panicked: %v", r)
			}
		}()
		if cp := r0.App.BaseApp.GetConsensusParams(r0.App.NewContext(true, e.Env.Header(rec.B))); cp != nil && cp.Block != nil {
			now := fmt.Sprintf("%d/%d", cp.Block.MaxGas, cp.Block.MaxBytes)
			if e.lastBlockParams != "" && e.lastBlockParams != now {
				e.Stats.Inc("probe.gov.consensus_params_changed")
				e.Trace.Ev("consensus params changed at height %d: %s -> %s", h, e.lastBlockParams, now)
			}
			e.lastBlockParams = now
		}
	}()
	want := e.Model.Flatten()
	for _, sec := range []string{"aol/", "did/", "pnft/"} {
		if d := DiffFlat(want, ex.Flat, sec, 4); len(d) > 0 {
			key := strings.SplitN(d[0], " ", 3)[1]
			cprop := propOfSection(key)
			if cprop == "C03" && strings.Contains(d[0], "want tomb") {
				cprop = "C05"
			}
			e.viol(cprop, "state.diverges_from_model.committed."+strings.TrimSuffix(sec, "/"), "", "committed state at height %d differs from the model: %s", h, strings.Join(d, " ; "))
			e.resync(r0.CommittedStores())
			break
		}
	}
	if e.stop {
		return
	}
	rec.FlatHash = flatHash(ex.Flat)
	e.checkStoredLimits(ex, h)
	e.Stats.C["max.records"] = max64(e.Stats.C["max.records"], int64(ex.NRecords))
	e.Stats.C["max.dids"] = max64(e.Stats.C["max.dids"], int64(ex.NDids))
	e.Stats.C["max.tokens"] = max64(e.Stats.C["max.tokens"], int64(ex.NTokens))
	e.Stats.C["max.topics"] = max64(e.Stats.C["max.topics"], int64(ex.NTopics))

	qe := e.S.Config.QueryEvery
	full := qe > 0 && h%int64(qe) == 0
	e.querySweep(r0, e.Model, 0, full, h)
	if e.stop {
		return
	}
	rec.Panel = BuildPanel(e.Model, e.Env, 40)
	ph, bad := r0.RunPanel(rec.Panel, 0)
	if bad != nil {
		e.viol("C17", "panic.query", "", "a panel query at height %d was answered with a panic: %s", h, bad.Brief())
		return
	}
	rec.PanelH = ph
	rec.SmallH, _ = r0.RunPanel(smallPanel(rec.Panel), 0)
	rec.Model = e.Model.Clone()
	if e.wantSnapshot(h) {
		e.snapshots[h] = r0.DB.Clone()
	}
}

// smallPanel: a short prefix-spread of the panel for the frequent mid-block reads.
func smallPanel(p []PanelReq) []PanelReq {
	if len(p) <= 10 {
		return p
	}
	var out []PanelReq
	for i := 0; i < 10; i++ {
		out = append(out, p[i*len(p)/10])
	}
	return out
}

func max64(a, b int64) int64 {
	if a > b {
		return a
	}
	return b
}

func (e *Exec) checkStoredLimits(ex *Extracted, h int64) {
	for _, s := range ex.Stored {
		ok := true
		switch s.Kind {
		case "topic":
			ok = reTopic.MatchString(s.Value)
		case "moniker":
			ok = reMoniker.MatchString(s.Value)
		case "description":
			ok = len(s.Value) <= 5000
		case "record_key":
			ok = len(s.Value) <= 70
		case "record_value":
			ok = len(s.Value) <= 5000
		case "did":
			ok = reDID.MatchString(s.Value)
		case "denom_id", "token_id", "token_denom", "denom_name", "denom_symbol", "token_name":
			ok = s.Value != ""
		case "actor":
			_, ok = addrOK(s.Value)
		default:
			if strings.HasPrefix(s.Kind, "method_id:") {
				ok = methodIDOK(s.Value, s.Kind[len("method_id:"):])
			}
		}
		if !ok {
			e.viol("C16", "stored.outside_limits."+strings.SplitN(s.Kind, ":", 2)[0], s.Kind, "height %d: a stored %s lies outside the documented limits: %q", h, s.Kind, trunc(s.Value, 120))
			return
		}
	}
}

// ---------------------------------------------------------------------------------------------
// query sweep: every public read agrees with the model (C01, C04, C05, C11, C12, C13)

func (e *Exec) qpanic(q QRes, what string) bool {
	if q.IsPanic() {
		e.viol("C17", "panic.query", what, "query %s was answered with a panic: %s %s", what, q.Brief(), q.PanicMsg)
		return true
	}
	return false
}

func (e *Exec) querySweep(r *Replica, m *Model, height int64, full bool, atH int64) {
	n := r.Node
	rng := Keyed(e.S.Seed, "sweep", uint64(r.ID), uint64(atH))
	// C01: every acknowledged record, forever
	lim := len(e.ledger)
	start := 0
	if !full && lim > 40 {
		start = lim - 40
	}
	for i := 0; i < lim; i++ {
		if i < start && !rng.Chance(0.05) {
			continue
		}
		a := e.ledger[i]
		if e.tainted["C01|"+a.Topic] {
			continue
		}
		q := n.Query(qRecord, &aoltypes.QueryRecordRequest{OwnerAddress: a.Owner, TopicName: a.Topic, Offset: a.Offset}, height)
		if e.qpanic(q, "Record") {
			return
		}
		var resp aoltypes.QueryRecordResponse
		if !q.OK() || resp.Unmarshal(q.Value) != nil || resp.Record == nil {
			e.viol("C01", "record.lost", a.Topic, "replica %d height %d: record (%s,%s,%d) acknowledged at height %d is no longer returned: %s", r.ID, atH, a.Owner, a.Topic, a.Offset, a.Height, q.Brief())
			return
		}
		rc := resp.Record
		if !bytes.Equal(rc.Key, a.Key) || !bytes.Equal(rc.Value, a.Value) || rc.WriterAddress != a.Writer || rc.NanoTimestamp != a.Ts {
			e.viol("C01", "record.changed", a.Topic, "replica %d height %d: record (%s,%s,%d) acknowledged at height %d now reads key=%x value=%x writer=%s ts=%d, acknowledged key=%x value=%x writer=%s ts=%d",
				r.ID, atH, a.Owner, a.Topic, a.Offset, a.Height, rc.Key, trunc(string(rc.Value), 40), rc.WriterAddress, rc.NanoTimestamp, a.Key, trunc(string(a.Value), 40), a.Writer, a.Ts)
			return
		}
		e.Stats.Inc("q.record")
	}
	// C13: counters and listings
	owners := sortedKeys(m.AolOwners)
	for _, o := range owners {
		if !full && !rng.Chance(0.35) {
			continue
		}
		oa := sdk.AccAddress([]byte(o)).String()
		var wantNames []string
		for name := range m.Aol[o] {
			wantNames = append(wantNames, name)
		}
		sort.Strings(wantNames)
		st := RandomPageStyle(rng)
		if rng.Chance(0.2) && len(wantNames) > 0 {
			st.Limit = uint64(len(wantNames)) // a page exactly as large as the listing
		}
		if rng.Chance(0.15) {
			// an offset at or beyond the end yields nothing
			wantTotal := rng.Chance(0.6)
			q := n.Query(qTopics, &aoltypes.QueryTopicsRequest{OwnerAddress: oa, Pagination: &query.PageRequest{Offset: uint64(len(wantNames) + rng.Intn(3)), Limit: 5, Reverse: st.Reverse, CountTotal: wantTotal}}, height)
			var resp aoltypes.QueryTopicsResponse
			if e.qpanic(q, "Topics") {
				return
			}
			if q.OK() && resp.Unmarshal(q.Value) == nil && wantTotal && resp.Pagination != nil && resp.Pagination.Total != uint64(len(wantNames)) {
				e.viol("C13", "listing.topics.total_beyond_end", hex.EncodeToString([]byte(o)), "replica %d height %d: Topics(%s) with count_total and an offset at/beyond the end reports total=%d; the owner has %d topics", r.ID, atH, oa, resp.Pagination.Total, len(wantNames))
				return
			}
			if q.OK() && len(resp.TopicNames) > 0 {
				e.viol("C13", "listing.topics.beyond_end", hex.EncodeToString([]byte(o)), "replica %d height %d: Topics(%s) with an offset at/beyond the end (%d items) returned %v", r.ID, atH, oa, len(wantNames), resp.TopicNames)
				return
			}
		}
		oaArg := oa
		if rng.Chance(0.15) {
			oaArg = strings.ToUpper(oa)
		}
		if len(wantNames) > 0 && rng.Chance(0.3) {
			// the writers of a topic that cannot exist (the empty name): nothing, whatever the owner's other topics hold
			q := n.Query(qWriters, &aoltypes.QueryWritersRequest{OwnerAddress: oa, TopicName: "", Pagination: &query.PageRequest{Limit: 1000, CountTotal: true}}, height)
			if e.qpanic(q, "Writers") {
				return
			}
			var wr aoltypes.QueryWritersResponse
			if q.OK() && wr.Unmarshal(q.Value) == nil && (len(wr.WriterAddresses) > 0 || (wr.Pagination != nil && wr.Pagination.Total > 0)) {
				e.viol("C13", "listing.writers.of_no_topic", hex.EncodeToString([]byte(o)), "replica %d height %d: Writers(%s, \"\") lists %d writers (total %v) of a topic that does not exist", r.ID, atH, oa, len(wr.WriterAddresses), wr.Pagination)
				return
			}
		}
		fetchTopics := func(pr *query.PageRequest) ([]string, *query.PageResponse, *QRes) {
			q := n.Query(qTopics, &aoltypes.QueryTopicsRequest{OwnerAddress: oaArg, Pagination: pr}, height)
			var resp aoltypes.QueryTopicsResponse
			if !q.OK() || resp.Unmarshal(q.Value) != nil {
				return nil, nil, &q
			}
			return resp.TopicNames, resp.Pagination, nil
		}
		got, total, bad, pages := pageAll(st, fetchTopics)
		if bad == nil && rng.Chance(0.3) && !e.keyProbe(fetchTopics, rng, "C13", "Topics", fmt.Sprintf("replica %d height %d: Topics(%s)", r.ID, atH, oa)) {
			return
		}
		if bad != nil {
			if e.qpanic(*bad, "Topics") {
				return
			}
			e.viol("C13", "listing.topics.error", hex.EncodeToString([]byte(o)), "replica %d height %d: Topics(%s) [%s] failed: %s", r.ID, atH, oa, st, bad.Brief())
			return
		}
		if pages > 1 {
			e.Stats.Inc("probe.paging.multi_page")
		}
		if !sameSet(got, wantNames) {
			e.viol("C13", "listing.topics.mismatch", hex.EncodeToString([]byte(o)), "replica %d height %d: Topics(%s) [%s] returned %v, the owner's topics are %v", r.ID, atH, oa, st, got, wantNames)
			return
		}
		if st.CountTotal && total != 0 && total != uint64(len(wantNames)) {
			e.viol("C13", "listing.topics.total", hex.EncodeToString([]byte(o)), "replica %d height %d: Topics(%s) [%s] reports total=%d, the owner has %d topics", r.ID, atH, oa, st, total, len(wantNames))
			return
		}
		e.Stats.Inc("q.topics")
		for _, name := range wantNames {
			if !full && !rng.Chance(0.5) {
				continue
			}
			ts := m.Aol[o][name]
			q := n.Query(qTopic, &aoltypes.QueryTopicRequest{OwnerAddress: oa, TopicName: name}, height)
			if e.qpanic(q, "Topic") {
				return
			}
			var tr aoltypes.QueryTopicResponse
			if !q.OK() || tr.Unmarshal(q.Value) != nil || tr.Topic == nil {
				e.viol("C13", "topic.missing", name, "replica %d height %d: Topic(%s,%s) failed: %s", r.ID, atH, oa, name, q.Brief())
				return
			}
			if tr.Topic.TotalRecords != uint64(len(ts.Records)) || tr.Topic.TotalWriters != uint64(len(ts.Writers)) {
				e.viol("C13", "topic.counters", name, "replica %d height %d: Topic(%s,%s) reports %d records/%d writers; it holds %d records and lists %d writers", r.ID, atH, oa, name, tr.Topic.TotalRecords, tr.Topic.TotalWriters, len(ts.Records), len(ts.Writers))
				return
			}
			var wantW []string
			for w := range ts.Writers {
				wantW = append(wantW, sdk.AccAddress([]byte(w)).String())
			}
			sort.Strings(wantW)
			st2 := RandomPageStyle(rng)
			if rng.Chance(0.2) && len(wantW) > 0 {
				st2.Limit = uint64(len(wantW))
			}
			fetchWriters := func(pr *query.PageRequest) ([]string, *query.PageResponse, *QRes) {
				q := n.Query(qWriters, &aoltypes.QueryWritersRequest{OwnerAddress: oaArg, TopicName: name, Pagination: pr}, height)
				var resp aoltypes.QueryWritersResponse
				if !q.OK() || resp.Unmarshal(q.Value) != nil {
					return nil, nil, &q
				}
				return resp.WriterAddresses, resp.Pagination, nil
			}
			gotW, totalW, bad, pages := pageAll(st2, fetchWriters)
			if bad == nil && rng.Chance(0.2) && !e.keyProbe(fetchWriters, rng, "C13", "Writers", fmt.Sprintf("replica %d height %d: Writers(%s,%s)", r.ID, atH, oa, name)) {
				return
			}
			if bad != nil {
				if e.qpanic(*bad, "Writers") {
					return
				}
				e.viol("C13", "listing.writers.error", name, "replica %d height %d: Writers(%s,%s) [%s] failed: %s", r.ID, atH, oa, name, st2, bad.Brief())
				return
			}
			if pages > 1 {
				e.Stats.Inc("probe.paging.multi_page")
			}
			if !sameSet(gotW, wantW) {
				e.viol("C13", "listing.writers.mismatch", name, "replica %d height %d: Writers(%s,%s) [%s] returned %v, listed writers are %v", r.ID, atH, oa, name, st2, gotW, wantW)
				return
			}
			if st2.CountTotal && totalW != 0 && totalW != uint64(len(wantW)) {
				e.viol("C13", "listing.writers.total", name, "replica %d height %d: Writers(%s,%s) reports total=%d for %d writers", r.ID, atH, oa, name, totalW, len(wantW))
				return
			}
			e.Stats.Inc("q.writers")
			// single-writer view: every listed writer is found with its stored fields, a non-writer is not found
			for w, wm := range ts.Writers {
				q := n.Query(qWriter, &aoltypes.QueryWriterRequest{OwnerAddress: oa, TopicName: name, WriterAddress: sdk.AccAddress([]byte(w)).String()}, height)
				if e.qpanic(q, "Writer") {
					return
				}
				var wr aoltypes.QueryWriterResponse
				if !q.OK() || wr.Unmarshal(q.Value) != nil || wr.Writer == nil || wr.Writer.Moniker != wm.Moniker || wr.Writer.Description != wm.Desc || wr.Writer.NanoTimestamp != wm.Ts {
					e.viol("C02", "writer.single_view", name, "replica %d height %d: Writer(%s,%s,%x) does not return the listed writer (%s)", r.ID, atH, oa, name, w, q.Brief())
					return
				}
				break // one per topic and sweep is enough
			}
			for _, a := range e.Env.Accs {
				if _, listed := ts.Writers[string(a.Addr)]; listed {
					continue
				}
				q := n.Query(qWriter, &aoltypes.QueryWriterRequest{OwnerAddress: oa, TopicName: name, WriterAddress: a.Addr.String()}, height)
				if e.qpanic(q, "Writer") {
					return
				}
				if q.OK() {
					prop := "C02"
					if e.Prop == "C15" && e.touchedByFailed["topic:"+oa+"/"+name] {
						prop = "C15"
					}
					e.viol(prop, "writer.phantom", "topic:"+oa+"/"+name, "replica %d height %d: Writer(%s,%s,%s) is returned although that address is not in the topic's writer list", r.ID, atH, oa, name, a.Addr)
					return
				}
				e.Stats.Inc("q.writer_absent")
				if rng.Chance(0.6) {
					break
				}
			}
			// a record just past the end does not exist
			q = n.Query(qRecord, &aoltypes.QueryRecordRequest{OwnerAddress: oa, TopicName: name, Offset: uint64(len(ts.Records))}, height)
			if e.qpanic(q, "Record") {
				return
			}
			if q.OK() {
				e.viol("C01", "record.phantom", name, "replica %d height %d: Record(%s,%s,%d) exists although the topic holds %d records", r.ID, atH, oa, name, len(ts.Records), len(ts.Records))
				return
			}
		}
	}
	// DID reads (C04, C05, C11)
	dids := make([]string, 0, len(m.Did))
	for d := range m.Did {
		dids = append(dids, d)
	}
	sort.Strings(dids)
	for _, d := range dids {
		if !full && !rng.Chance(0.5) {
			continue
		}
		en := m.Did[d]
		q := n.Query(qDID, &didtypes.QueryDIDRequest{DidBase64: base64.StdEncoding.EncodeToString([]byte(d))}, height)
		if e.qpanic(q, "DID") {
			return
		}
		e.Stats.Inc("q.did")
		if en.Tomb {
			if q.OK() {
				e.viol("C05", "did.tombstone_readable", "did:"+d, "replica %d height %d: deactivated DID %s is returned by the read operation", r.ID, atH, d)
				return
			}
			e.Stats.Inc("probe.did.tombstone_read_notfound")
			continue
		}
		var resp didtypes.QueryDIDResponse
		if !q.OK() || resp.Unmarshal(q.Value) != nil || resp.DidDocumentWithSeq == nil || resp.DidDocumentWithSeq.Document == nil {
			e.viol("C03", "did.unreadable", "did:"+d, "replica %d height %d: active DID %s cannot be read: %s", r.ID, atH, d, q.Brief())
			return
		}
		got := resp.DidDocumentWithSeq
		if got.Document.Id != d {
			e.viol("C11", "did.query_id_mismatch", "did:"+d, "replica %d height %d: reading %s returns a document about %s", r.ID, atH, d, got.Document.Id)
			return
		}
		if got.Sequence != en.Seq {
			e.viol("C04", "did.sequence", "did:"+d, "replica %d height %d: DID %s reports sequence %d, expected %d", r.ID, atH, d, got.Sequence, en.Seq)
			return
		}
		gb, _ := got.Document.Marshal()
		wb, _ := en.Doc.Marshal()
		if !bytes.Equal(gb, wb) {
			e.viol("C03", "did.document_differs", "did:"+d, "replica %d height %d: DID %s returns a document different from the last accepted one", r.ID, atH, d)
			return
		}
		// byte strings that are NOT this identifier (and no other registered one) resolve to nothing: bytes that are not
		// valid UTF-8 before, inside and after it, blanks, NUL, a fragment, the other letter case
		if full || rng.Chance(0.3) {
			mid := len(d) / 2
			near := []string{d + "\xff", "\xc3" + d, d[:mid] + "\x80" + d[mid:], d[:mid] + "\xed\xa0\x80" + d[mid:], d + " ", " " + d, d + "\x00", d + "#key1", strings.ToUpper(d), d + "\n", "\ufeff" + d}
			x := near[rng.Intn(len(near))]
			if _, registered := m.Did[x]; !registered && x != d {
				qx := n.Query(qDID, &didtypes.QueryDIDRequest{DidBase64: base64.StdEncoding.EncodeToString([]byte(x))}, height)
				if e.qpanic(qx, "DID") {
					return
				}
				e.Stats.Inc("q.did.near_miss")
				var rx didtypes.QueryDIDResponse
				if qx.OK() && rx.Unmarshal(qx.Value) == nil && rx.DidDocumentWithSeq != nil && rx.DidDocumentWithSeq.Document != nil && !rx.DidDocumentWithSeq.Empty() {
					e.viol("C11", "did.query_near_miss", "did:"+d, "replica %d height %d: reading %q, which was never registered, returns a document about %s", r.ID, atH, x, rx.DidDocumentWithSeq.Document.Id)
					return
				}
			}
		}
	}
	e.pnftSweep(r, m, height, full, atH, rng)
}

func sameSet(got, want []string) bool {
	if len(got) != len(want) {
		return false
	}
	g := append([]string(nil), got...)
	w := append([]string(nil), want...)
	sort.Strings(g)
	sort.Strings(w)
	for i := range g {
		if g[i] != w[i] {
			return false
		}
	}
	return true
}

func tokenKey(t *pnfttypes.Pnft) string {
	return fmt.Sprintf("%x/%x|name=%x;desc=%x;uri=%x;hash=%x;data=%x;creator=%s;at=%d;owner=%s", t.DenomId, t.Id, t.Name, t.Description, t.Uri, t.UriHash, t.Data, t.Creator, t.CreatedAt.UnixNano(), t.Owner)
}
func tokenKeyM(t *TokenM) string {
	return fmt.Sprintf("%x/%x|name=%x;desc=%x;uri=%x;hash=%x;data=%x;creator=%s;at=%d;owner=%s", t.DenomId, t.Id, t.Name, t.Description, t.Uri, t.UriHash, t.Data, t.Creator, t.CreatedAt.UnixNano(), t.Owner)
}
func denomKey(d *pnfttypes.Denom) string {
	return fmt.Sprintf("%x|name=%x;sym=%x;desc=%x;uri=%x;hash=%x;data=%x;owner=%s", d.Id, d.Name, d.Symbol, d.Description, d.Uri, d.UriHash, d.Data, d.Owner)
}
func denomKeyM(d *DenomM) string {
	return fmt.Sprintf("%x|name=%x;sym=%x;desc=%x;uri=%x;hash=%x;data=%x;owner=%s", d.Id, d.Name, d.Symbol, d.Description, d.Uri, d.UriHash, d.Data, d.Owner)
}

func (e *Exec) pnftSweep(r *Replica, m *Model, height int64, full bool, atH int64, rng *PRNG) {
	n := r.Node
	dens := make([]string, 0, len(m.Denoms))
	for d := range m.Denoms {
		dens = append(dens, d)
	}
	sort.Strings(dens)
	if len(dens) == 0 && len(m.Tokens) == 0 {
		return
	}
	// Denoms (paged) == model denoms
	var wantD []string
	for _, d := range dens {
		wantD = append(wantD, denomKeyM(m.Denoms[d]))
	}
	st := RandomPageStyle(rng)
	fetchDenoms := func(pr *query.PageRequest) ([]string, *query.PageResponse, *QRes) {
		q := n.Query(qDenoms, &pnfttypes.QueryDenomsRequest{Pagination: pr}, height)
		var resp pnfttypes.QueryDenomsResponse
		if !q.OK() || resp.Unmarshal(q.Value) != nil {
			return nil, nil, &q
		}
		var out []string
		for _, d := range resp.Denoms {
			out = append(out, denomKey(d))
		}
		return out, resp.Pagination, nil
	}
	gotD, _, bad, _ := pageAll(st, fetchDenoms)
	if bad == nil && rng.Chance(0.4) && !e.keyProbe(fetchDenoms, rng, "C12", "Denoms", fmt.Sprintf("replica %d height %d: Denoms", r.ID, atH)) {
		return
	}
	if bad != nil {
		if e.qpanic(*bad, "Denoms") {
			return
		}
		e.viol("C12", "listing.denoms.error", "", "replica %d height %d: Denoms [%s] failed: %s", r.ID, atH, st, bad.Brief())
		return
	}
	if !sameSet(gotD, wantD) {
		e.viol("C12", "listing.denoms.mismatch", "", "replica %d height %d: Denoms [%s] returned %d items %v; existing denoms: %v", r.ID, atH, st, len(gotD), gotD, wantD)
		return
	}
	e.Stats.Inc("q.denoms")
	// DenomsByOwner for every account, including owners of nothing
	for _, a := range e.Env.Accs {
		if !full && !rng.Chance(0.3) {
			continue
		}
		var want []string
		open := false
		for _, d := range dens {
			if sameAddr(m.Denoms[d].Owner, a.Addr.String()) {
				want = append(want, denomKeyM(m.Denoms[d]))
				if m.Denoms[d].Owner != a.Addr.String() {
					open = true // a non-canonical (upper-case) spelling of the owner: left open by the documents
				}
			}
		}
		if open {
			continue
		}
		q := n.Query(qDenomsBy, &pnfttypes.QueryDenomsByOwnerRequest{Owner: a.Addr.String()}, height)
		if e.qpanic(q, "DenomsByOwner") {
			return
		}
		var resp pnfttypes.QueryDenomsByOwnerResponse
		if !q.OK() || resp.Unmarshal(q.Value) != nil {
			e.viol("C12", "listing.denoms_by_owner.error", "", "replica %d height %d: DenomsByOwner(%s) failed: %s", r.ID, atH, a.Addr, q.Brief())
			return
		}
		var got []string
		for _, d := range resp.Denoms {
			got = append(got, denomKey(d))
		}
		if !sameSet(got, want) {
			e.viol("C12", "listing.denoms_by_owner.mismatch", "denoms_by_owner", "replica %d height %d: DenomsByOwner(%s) returned %d denoms; that account owns %d (%v vs %v)", r.ID, atH, a.Addr, len(got), len(want), got, want)
			return
		}
		e.Stats.Inc("q.denoms_by_owner")
		if len(want) != len(dens) {
			e.Stats.Inc("probe.denoms_by_owner.selective")
		}
	}
	for _, d := range dens {
		if !full && !rng.Chance(0.5) {
			continue
		}
		q := n.Query(qDenom, &pnfttypes.QueryDenomRequest{Id: d}, height)
		if e.qpanic(q, "Denom") {
			return
		}
		var dr pnfttypes.QueryDenomResponse
		if !q.OK() || dr.Unmarshal(q.Value) != nil || dr.Denom == nil || denomKey(dr.Denom) != denomKeyM(m.Denoms[d]) {
			e.viol("C12", "denom.single_view", "denom:"+d, "replica %d height %d: Denom(%q) = %v (%s), expected %s", r.ID, atH, d, dr.Denom, q.Brief(), denomKeyM(m.Denoms[d]))
			return
		}
	}
	// tokens
	tdens := make([]string, 0, len(m.Tokens))
	for d := range m.Tokens {
		tdens = append(tdens, d)
	}
	for _, d := range dens {
		if _, ok := m.Tokens[d]; !ok {
			tdens = append(tdens, d)
		}
	}
	sort.Strings(tdens)
	for _, d := range tdens {
		if !full && !rng.Chance(0.5) {
			continue
		}
		ids := make([]string, 0, len(m.Tokens[d]))
		for id := range m.Tokens[d] {
			ids = append(ids, id)
		}
		sort.Strings(ids)
		var want []string
		byOwner := map[string][]string{}
		for _, id := range ids {
			t := m.Tokens[d][id]
			want = append(want, tokenKeyM(t))
			byOwner[t.Owner] = append(byOwner[t.Owner], tokenKeyM(t))
			q := n.Query(qPNFT, &pnfttypes.QueryPNFTRequest{DenomId: d, Id: id}, height)
			if e.qpanic(q, "PNFT") {
				return
			}
			var pr pnfttypes.QueryPNFTResponse
			if !q.OK() || pr.Unmarshal(q.Value) != nil || pr.Pnft == nil || tokenKey(pr.Pnft) != tokenKeyM(t) {
				got := "<error " + q.Brief() + ">"
				if pr.Pnft != nil {
					got = tokenKey(pr.Pnft)
				}
				e.viol("C12", "token.single_view", "denom:"+d, "replica %d height %d: PNFT(%q,%q) = %s, expected %s", r.ID, atH, d, id, got, tokenKeyM(t))
				return
			}
			e.Stats.Inc("q.pnft")
		}
		q := n.Query(qPNFTs, &pnfttypes.QueryPNFTsRequest{DenomId: d}, height)
		if e.qpanic(q, "PNFTs") {
			return
		}
		var lr pnfttypes.QueryPNFTsResponse
		if !q.OK() || lr.Unmarshal(q.Value) != nil {
			e.viol("C12", "listing.pnfts.error", "denom:"+d, "replica %d height %d: PNFTs(%q) failed: %s", r.ID, atH, d, q.Brief())
			return
		}
		var got []string
		for _, t := range lr.Pnfts {
			got = append(got, tokenKey(t))
		}
		if !sameSet(got, want) {
			e.viol("C12", "listing.pnfts.mismatch", "denom:"+d, "replica %d height %d: PNFTs(%q) returned %v, tokens of that denom: %v", r.ID, atH, d, got, want)
			return
		}
		e.Stats.Inc("q.pnfts")
		for _, a := range e.Env.Accs {
			if !full && !rng.Chance(0.3) {
				continue
			}
			if rng.Chance(0.1) {
				// whatever the handler makes of the denom "" (an error, an empty page): tokens of other denoms are not in it
				q0 := n.Query(qPNFTsBy, &pnfttypes.QueryPNFTsByDenomOwnerRequest{DenomId: "", Owner: a.Addr.String()}, height)
				if e.qpanic(q0, "PNFTsByDenomOwner") {
					return
				}
				var r0 pnfttypes.QueryPNFTsByDenomOwnerResponse
				if q0.OK() && r0.Unmarshal(q0.Value) == nil {
					for _, t := range r0.Pnfts {
						if t != nil && t.DenomId != "" {
							e.viol("C12", "listing.pnfts_by_owner.foreign_denom", "denom:", "replica %d height %d: PNFTsByDenomOwner(\"\",%s) lists %s/%s, a token of another denom", r.ID, atH, a.Addr, t.DenomId, t.Id)
							return
						}
					}
				}
				e.Stats.Inc("q.pnfts_by_owner.empty_denom")
			}
			ownerArg := a.Addr.String()
			if rng.Chance(0.25) {
				ownerArg = strings.ToUpper(ownerArg) // bech32's other legal spelling of the same account: the handler decodes the argument
			}
			q := n.Query(qPNFTsBy, &pnfttypes.QueryPNFTsByDenomOwnerRequest{DenomId: d, Owner: ownerArg}, height)
			if e.qpanic(q, "PNFTsByDenomOwner") {
				return
			}
			var br pnfttypes.QueryPNFTsByDenomOwnerResponse
			if !q.OK() || br.Unmarshal(q.Value) != nil {
				e.viol("C12", "listing.pnfts_by_owner.error", "denom:"+d, "replica %d height %d: PNFTsByDenomOwner(%q,%s) failed: %s", r.ID, atH, d, a.Addr, q.Brief())
				return
			}
			var got []string
			for _, t := range br.Pnfts {
				got = append(got, tokenKey(t))
			}
			if !sameSet(got, byOwner[a.Addr.String()]) {
				e.viol("C12", "listing.pnfts_by_owner.mismatch", "denom:"+d, "replica %d height %d: PNFTsByDenomOwner(%q,%s) returned %v, expected %v", r.ID, atH, d, ownerArg, got, byOwner[a.Addr.String()])
				return
			}
			e.Stats.Inc("q.pnfts_by_owner")
		}
	}
}

// ---------------------------------------------------------------------------------------------
// replicas

func (e *Exec) head() int64 { return e.H0 + int64(len(e.Blocks)) }

// at returns the record of the block at height h (nil when the chain has no such block).
func (e *Exec) at(h int64) *BlockRec {
	i := h - e.H0 - 1
	if i < 0 || i >= int64(len(e.Blocks)) {
		return nil
	}
	return e.Blocks[i]
}

func (e *Exec) feedReplica(r *Replica) {
	if r.Dead {
		return
	}
	if r.LagUntil > e.head() {
		e.Stats.Inc("net.block_buffered")
		return
	}
	burst := 0
	for r.Applied < e.head() && !e.stop && !r.Dead {
		rec := e.at(r.Applied + 1)
		e.applyOn(r, rec)
		burst++
	}
	if burst > 1 {
		e.Stats.Inc("probe.catchup_burst")
	}
}

func (e *Exec) restart(r *Replica, near int64) bool {
	if r.NextCfg != nil {
		// the IAVL fast-node setting stays what it was when the database was created: enabling it on a database
		// that holds a partially written Commit makes iavl v0.20.1 build its fast index from the older tree and
		// label it with the newer version, after which reads are stale although the app hash is right - a
		// dependency defect (seen with VERIF_SEED=1 on the unchanged tree) that says nothing about panacea-core
		fast := r.Cfg.FastNodeOff
		r.Cfg = *r.NextCfg
		r.Cfg.FastNodeOff = fast
		r.NextCfg = nil
		e.Stats.Inc("fault.restart.reconfig")
	}
	if r.NoInfoFile {
		_ = os.Remove(filepath.Join(r.Home, "data", "upgrade-info.json"))
		r.NoInfoFile = false
		e.Stats.Inc("fault.restart.no_upgrade_info")
	}
	r.Restarts++
	e.Stats.Inc("fault.restart")
	if err := r.Start(); err != nil {
		prop := "C10"
		if e.nearUpgrade(near) {
			prop = "C19"
		}
		e.viol(prop, "node.start_failed", "", "replica %d cannot be started again on its own database near height %d: %v", r.ID, near, err)
		r.Dead = true
		return false
	}
	if r.Cfg.Pruning != "nothing" {
		r.PrunedEver = true
	}
	if r.LastHeight() == 0 && r.Genesis != nil {
		// nothing was ever committed: the handshake sends InitChain again
		req := *r.Genesis
		_, halt := r.guard("InitChain", func() { r.App.InitChain(req) })
		if halt != nil {
			e.viol("C10", "restart.initchain_panic", "", "replica %d: InitChain after a restart on an empty database panicked: %s [%s]", r.ID, halt.Panic, halt.Stack)
			r.Dead = true
			return false
		}
		e.Stats.Inc("probe.restart.reinit_genesis")
	}
	e.Trace.Ev("replica %d restarted at height %d (restart #%d)", r.ID, r.LastHeight(), r.Restarts)
	return true
}

func (e *Exec) nearUpgrade(h int64) bool {
	for _, b := range e.Blocks {
		if b.Plan != nil && h >= b.Plan.Height-1 && h <= b.Plan.Height+1 {
			return true
		}
	}
	return false
}

// verifyRestartState: after a restart the node is at a committed height with exactly the twin's state.
func (e *Exec) verifyRestartState(n *Node, boot bool, firstHeight int64, allowed []int64, tag string) (int64, bool) {
	lh := n.LastHeight()
	if lh == 0 {
		lh = e.H0 // nothing committed yet: the application reports 0 whatever the chain's initial height is
	}
	ok := false
	for _, a := range allowed {
		if lh == a {
			ok = true
		}
	}
	prop := "C10"
	if e.nearUpgrade(lh) || e.nearUpgrade(lh+1) {
		prop = "C19"
	}
	if !ok {
		e.viol(prop, "restart.wrong_height", "", "%s: after restart the node reports height %d, allowed %v", tag, lh, allowed)
		return lh, false
	}
	if lh >= firstHeight && lh >= e.H0+1 && lh <= e.head() {
		rec := e.at(lh)
		if !boot {
			info := n.Info()
			if !bytes.Equal(info.LastBlockAppHash, rec.AppHash) {
				e.viol(prop, "restart.wrong_apphash", "", "%s: after restart at height %d the application hash is %x, the uninterrupted twin had %x", tag, lh, info.LastBlockAppHash, rec.AppHash)
				return lh, false
			}
		}
		ex := ExtractState(n.CommittedStores())
		if fh := flatHash(ex.Flat); fh != rec.FlatHash {
			d := DiffFlat(rec.Model.Flatten(), ex.Flat, "", 4)
			e.viol(prop, "restart.custom_state_differs", "", "%s: after restart at height %d the custom-module state differs from the twin's at that height: %s", tag, lh, strings.Join(d, " ; "))
			return lh, false
		}
	}
	return lh, true
}

type applyOpts struct {
	Crash    *CrashAt
	MidRate  float64
	Storm    bool
	Boot     bool
	PRNGKey  []uint64
	Tag      string
	NoOracle bool
	HistoryOK bool // every height since genesis is retained on this node (pruning "nothing" throughout)
}

type applyOutcome struct {
	Crashed   bool
	Committed bool
	Halt      *haltError
	Mismatch  string
	MismatchProp string
}

// applyBlock drives one block through a node, with an optional injected crash and mid-block tasks.
func (e *Exec) applyBlock(n *Node, rec *BlockRec, o applyOpts) (out applyOutcome) {
	defer n.enterEnv()()
	h := rec.B.Height
	n.curHdr = rec.B
	nTx := len(rec.B.Txs)
	crashHere := func(call int) bool {
		return o.Crash != nil && o.Crash.Kind == "abci" && o.Crash.N == call
	}
	rng := Keyed(e.S.Seed, "mid", append(o.PRNGKey, uint64(h))...)
	mid := func(boundary int) {
		if o.MidRate > 0 && rng.Chance(o.MidRate) {
			e.midBlockTasks(n, h, boundary, o, rng)
		}
	}
	isUpgrade := e.at(h-1) != nil && e.at(h-1).Plan != nil
	_, halt := n.guard("BeginBlock", func() { n.App.BeginBlock(e.Env.BeginReq(rec.B)) })
	if halt != nil {
		out.Halt = halt
		return
	}
	n.inBlock = true
	_ = isUpgrade
	e.legacyState(n, h)
	if crashHere(0) {
		out.Crashed = true
		return
	}
	mid(0)
	for i, tx := range rec.B.Txs {
		if o.Storm {
			e.storm(n, tx, rng)
		}
		var res abci.ResponseDeliverTx
		_, halt := n.guard("DeliverTx", func() { res = n.App.DeliverTx(abci.RequestDeliverTx{Tx: tx}) })
		if halt != nil {
			out.Halt = halt
			return
		}
		if !o.NoOracle {
			tr := resOf(res)
			if o.Boot {
				if tr.Code != rec.Results[i].Code {
					out.Mismatch = fmt.Sprintf("height %d tx %d: result code %d/%s, reference replica had %d/%s (log %s)", h, i, tr.Code, tr.Codespace, rec.Results[i].Code, rec.Results[i].Codespace, trunc(tr.Log, 160))
					if tr.Code == 0 && i < len(rec.TxIDs) && e.resubmitsAcceptedDid(rec.TxIDs[i]) {
						// the chain that continues from the export accepted a DID message that had been accepted before
						out.MismatchProp = "C04"
						out.Mismatch = "a DID message that was accepted once is accepted again by the chain started from the export: " + out.Mismatch
					}
				}
			} else if !tr.SameConsensus(rec.Results[i]) && out.Mismatch == "" {
				out.Mismatch = fmt.Sprintf("height %d tx %d: result {code %d/%s gas %d/%d events %s data %x} differs from the reference replica's {code %d/%s gas %d/%d events %s data %x}", h, i,
					tr.Code, tr.Codespace, tr.GasWanted, tr.GasUsed, tr.EventsH, trunc(string(tr.Data), 40), rec.Results[i].Code, rec.Results[i].Codespace, rec.Results[i].GasWanted, rec.Results[i].GasUsed, rec.Results[i].EventsH, trunc(string(rec.Results[i].Data), 40))
			}
		}
		if crashHere(i + 1) {
			out.Crashed = true
			return
		}
		mid(i + 1)
	}
	if rec.EarlyPlan != nil {
		plan := *rec.EarlyPlan
		_, halt := n.guard("ScheduleUpgrade", func() {
			if err := n.App.UpgradeKeeper.ScheduleUpgrade(n.DeliverCtx(), plan); err != nil {
				panic(err)
			}
		})
		if halt != nil {
			out.Halt = halt
			return
		}
	}
	if rec.Plan != nil && !rec.PlanViaGov {
		plan := *rec.Plan
		_, halt := n.guard("ScheduleUpgrade", func() {
			if err := n.App.UpgradeKeeper.ScheduleUpgrade(n.DeliverCtx(), plan); err != nil {
				panic(err)
			}
		})
		if halt != nil {
			out.Halt = halt
			return
		}
	}
	var endRes abci.ResponseEndBlock
	_, halt = n.guard("EndBlock", func() { endRes = n.App.EndBlock(abci.RequestEndBlock{Height: h}) })
	if halt != nil {
		out.Halt = halt
		return
	}
	if !o.NoOracle && !o.Boot && out.Mismatch == "" {
		eh := sha256.New()
		for _, ev := range endRes.Events {
			eh.Write([]byte(ev.String()))
		}
		for _, vu := range endRes.ValidatorUpdates {
			eh.Write([]byte(vu.String()))
		}
		if got := hex.EncodeToString(eh.Sum(nil)[:8]); got != rec.EndH {
			out.Mismatch = fmt.Sprintf("height %d: EndBlock events/validator updates differ from the reference replica's", h)
		}
	}
	if crashHere(nTx + 1) {
		out.Crashed = true
		return
	}
	mid(nTx + 1)
	if o.Crash != nil && o.Crash.Kind == "write" {
		n.DB.Arm(int64(o.Crash.N))
	}
	var cr abci.ResponseCommit
	crashed, halt := n.guard("Commit", func() { cr = n.App.Commit() })
	n.DB.Disarm()
	if crashed {
		out.Crashed = true
		return
	}
	if halt != nil {
		out.Halt = halt
		return
	}
	n.inBlock = false
	out.Committed = true
	if !o.NoOracle && !o.Boot && out.Mismatch == "" && !bytes.Equal(cr.Data, rec.AppHash) {
		out.Mismatch = fmt.Sprintf("height %d: application hash %x differs from the reference replica's %x", h, cr.Data, rec.AppHash)
	}
	if o.Crash != nil && o.Crash.Kind == "after_commit" {
		out.Crashed = true
	}
	return
}

func (e *Exec) storm(n *Node, tx []byte, rng *PRNG) {
	func() {
		defer func() {
			if r := recover(); r != nil {
				e.viol("C17", "panic.checktx.escaped", "", "CheckTx/Simulate panicked: %v", r)
			}
		}()
		r1 := n.App.CheckTx(abci.RequestCheckTx{Tx: tx, Type: abci.CheckTxType_New})
		if r1.Code == panicCode && r1.Codespace == "undefined" {
			e.viol("C17", "panic.checktx", "", "CheckTx was answered with a recovered panic: %s", trunc(r1.Log, 300))
		}
		n.App.CheckTx(abci.RequestCheckTx{Tx: tx, Type: abci.CheckTxType_Recheck})
		_, _, _ = n.App.Simulate(tx)
		e.Stats.Add("storm.checktx", 2)
		e.Stats.Inc("storm.simulate")
	}()
}

// midBlockTasks: simulated query/CheckTx "threads" scheduled at an ABCI-call boundary (C20.1).
func (e *Exec) midBlockTasks(n *Node, h int64, boundary int, o applyOpts, rng *PRNG) {
	e.Stats.Inc("sched.mid_block_task")
	committed := h - 1
	if committed >= e.H0+1 && committed <= e.head() && !o.Boot {
		rec := e.at(committed)
		if rec.Panel != nil {
			got, bad := n.RunPanel(smallPanel(rec.Panel), 0)
			if bad != nil {
				e.viol("C17", "panic.query", "", "%s: a query during block %d was answered with a panic: %s", o.Tag, h, bad.Brief())
				return
			}
			e.Stats.Inc("q.panel.latest_midblock")
			if got != rec.SmallH {
				e.viol("C20", "snapshot.latest_not_committed", "", "%s: queries at 'latest' issued at ABCI boundary %d of block %d do not return the state committed at height %d (a half-applied block is visible or answers are not repeatable)", o.Tag, boundary, h, committed)
				return
			}
		}
		// a historical height
		if committed >= e.H0+2 && o.HistoryOK {
			hh := int64(rng.Range(int(e.H0)+1, int(committed)-1))
			old := e.at(hh)
			if old != nil && old.Panel != nil {
				got, bad := n.RunPanel(smallPanel(old.Panel), hh)
				if bad != nil {
					e.viol("C17", "panic.query", "", "%s: a historical query was answered with a panic: %s", o.Tag, bad.Brief())
					return
				}
				e.Stats.Inc("q.panel.historical_midblock")
				if got != old.SmallH {
					e.viol("C20", "snapshot.historical_changed", "", "%s: queries at fixed height %d issued during block %d differ from the answers recorded right after Commit(%d)", o.Tag, hh, h, hh)
					return
				}
			}
		}
	}
	if len(e.Blocks) > 0 && rng.Chance(0.5) {
		// CheckTx / Simulate of some earlier transaction bytes (conflicting sequence): must not disturb anything
		b := e.Blocks[rng.Intn(len(e.Blocks))]
		if len(b.B.Txs) > 0 {
			e.storm(n, b.B.Txs[rng.Intn(len(b.B.Txs))], rng)
		}
	}
}

func (e *Exec) applyOn(r *Replica, rec *BlockRec) {
	h := rec.B.Height
	if !r.Up {
		if !e.restart(r, h) {
			return
		}
		if _, ok := e.verifyRestartState(r.Node, r.Boot, r.FirstHeight, []int64{r.Applied}, fmt.Sprintf("replica %d", r.ID)); !ok {
			r.Dead = true
			return
		}
	}
	crash := r.Crash
	r.Crash = nil
	if crash != nil && crash.Kind == "abci" {
		if crash.N > len(rec.B.Txs)+1 {
			crash.N = len(rec.B.Txs) + 1
		}
	}
	o := applyOpts{Crash: crash, MidRate: e.S.Config.MidBlockRate, Storm: r.Cfg.Storm, Boot: r.Boot, PRNGKey: []uint64{uint64(r.ID)}, Tag: fmt.Sprintf("replica %d", r.ID), HistoryOK: !r.PrunedEver && !r.Boot}
	out := e.applyBlock(r.Node, rec, o)
	if out.Halt != nil {
		prop := "C09"
		if e.nearUpgrade(h) {
			prop = "C19"
		}
		e.viol(prop, "halt.replica", "", "replica %d: %s while applying block %d which the reference replica processed: %s [%s]", r.ID, out.Halt.Where, h, out.Halt.Panic, out.Halt.Stack)
		r.Dead = true
		return
	}
	if out.Mismatch != "" {
		prop := "C09"
		if r.Boot {
			prop = "C08"
		}
		if out.MismatchProp != "" {
			prop = out.MismatchProp
		}
		e.viol(prop, "replica.diverged", "", "replica %d (config %+v, restarts %d, bootstrapped=%v): %s", r.ID, r.Cfg, r.Restarts, r.Boot, out.Mismatch)
		r.Dead = true
		return
	}
	if out.Crashed {
		loss := "kill"
		if crash != nil && crash.Loss == "power" {
			loss = "power"
		}
		keep := -1
		if loss == "power" {
			pend := r.DB.PendingUnsynced()
			keep = Keyed(e.S.Seed, "power", uint64(r.ID), uint64(h)).Intn(pend + 1)
			e.Stats.Inc("fault.crash.power_loss")
		}
		kind := "abci"
		if crash != nil {
			kind = crash.Kind
		}
		e.Stats.Inc("fault.crash." + kind)
		e.Trace.Ev("replica %d crashed in block %d at %s/%d loss=%s", r.ID, h, kind, crashN(crash), loss)
		r.Kill(keep)
		if !e.restart(r, h) {
			return
		}
		allowed := []int64{h - 1}
		if kind == "write" {
			allowed = []int64{h - 1, h}
		} else if kind == "after_commit" {
			allowed = []int64{h}
		}
		lh, ok := e.verifyRestartState(r.Node, r.Boot, r.FirstHeight, allowed, fmt.Sprintf("replica %d crashed in block %d at %s/%d (%s)", r.ID, h, kind, crashN(crash), loss))
		if !ok {
			r.Dead = true
			return
		}
		if lh == h {
			r.Applied = h
			e.Stats.Inc("probe.crash.commit_persisted")
		} else {
			if kind == "write" {
				e.Stats.Inc("probe.crash.commit_torn")
			}
			// handshake: replay the block
			out2 := e.applyBlock(r.Node, rec, applyOpts{Boot: r.Boot, PRNGKey: []uint64{uint64(r.ID), 7}, Tag: fmt.Sprintf("replica %d (replay after crash)", r.ID)})
			if out2.Halt != nil || out2.Mismatch != "" || !out2.Committed {
				what := out2.Mismatch
				if out2.Halt != nil {
					what = out2.Halt.Error() + " [" + out2.Halt.Stack + "]"
				}
				e.viol("C10", "restart.replay_diverged", "", "replica %d: replaying block %d after a crash at %s/%d (%s) does not reproduce the twin: %s", r.ID, h, kind, crashN(crash), loss, what)
				r.Dead = true
				return
			}
			r.Applied = h
		}
	} else {
		r.Applied = h
	}
	// C09: same answers at this height
	if rec.Panel != nil && !e.stop && (h == e.head() && e.inEpilogue || Keyed(e.S.Seed, "rpanel", uint64(r.ID), uint64(h)).Chance(0.3)) {
		got, bad := r.RunPanel(rec.Panel, 0)
		if bad != nil {
			e.viol("C17", "panic.query", "", "replica %d: a query was answered with a panic: %s", r.ID, bad.Brief())
			return
		}
		if got != rec.PanelH {
			prop := "C09"
			if r.Boot {
				prop = "C08"
			}
			e.viol(prop, "replica.query_answers_differ", "", "replica %d (bootstrapped=%v, config %+v): query answers at height %d differ from the reference replica's", r.ID, r.Boot, r.Cfg, h)
			r.Dead = true
			return
		}
		e.Stats.Inc("q.panel.replica")
	}
	if r.NextCfg != nil {
		// planned restart with another node-local configuration
		r.Kill(-1)
	}
}

func crashN(c *CrashAt) int {
	if c == nil {
		return 0
	}
	return c.N
}

// ---------------------------------------------------------------------------------------------
// bootstrap from export (C08)

var customGenesisModules = []string{"aol", "did", "pnft", "burn"}

func customSections(appState json.RawMessage) (map[string]string, error) {
	var m map[string]json.RawMessage
	if err := json.Unmarshal(appState, &m); err != nil {
		return nil, err
	}
	out := map[string]string{}
	for _, k := range customGenesisModules {
		out[k] = string(m[k])
	}
	return out, nil
}

func (e *Exec) exportFrom(n *Node, tag string) (appState []byte, vals []abci.ValidatorUpdate, ok bool) {
	var err error
	// the module manager exports every module in its own goroutine, where a panic cannot be recovered:
	// export the custom modules on this goroutine first so that a panic of theirs is observed
	for _, mod := range customGenesisModules {
		m, ok := n.App.ModuleManager.Modules[mod].(module.HasGenesis)
		if !ok {
			continue
		}
		_, halt := n.guard("ExportGenesis/"+mod, func() {
			ctx := n.App.NewContext(true, tmproto.Header{Height: n.App.LastBlockHeight()})
			_ = m.ExportGenesis(ctx, n.App.AppCodec())
		})
		if halt != nil {
			e.viol("C08", "export.panic."+mod, "", "%s: exporting the %s genesis panicked: %s [%s]", tag, mod, halt.Panic, halt.Stack)
			return nil, nil, false
		}
	}
	_, halt := n.guard("Export", func() {
		exp, er := n.App.ExportAppStateAndValidators(false, nil, nil)
		err = er
		if er == nil {
			appState = exp.AppState
			if n.ID == 0 {
				e.exportedCP = exp.ConsensusParams // the export carries the consensus parameters in force (governance may have changed them)
			}
			for _, v := range exp.Validators {
				pk, _ := cryptoToProto(v.PubKey)
				vals = append(vals, abci.ValidatorUpdate{PubKey: pk, Power: v.Power})
			}
		}
	})
	if halt != nil {
		e.viol("C08", "export.panic", "", "%s: exporting genesis panicked: %s [%s]", tag, halt.Panic, halt.Stack)
		return nil, nil, false
	}
	if err != nil {
		e.viol("C08", "export.error", "", "%s: exporting genesis failed: %v", tag, err)
		return nil, nil, false
	}
	return appState, vals, true
}

func (e *Exec) bootstrap(st *Step) {
	h := e.head()
	if len(e.Blocks) < 1 {
		return
	}
	r0 := e.R[0]
	e.Stats.Inc("fault.bootstrap")
	e.Trace.Ev("bootstrap from export at height %d", h)
	a1, vals, ok := e.exportFrom(r0.Node, "reference replica")
	if !ok {
		return
	}
	a2, _, ok := e.exportFrom(r0.Node, "reference replica (second export)")
	if !ok {
		return
	}
	if !bytes.Equal(a1, a2) {
		s1, _ := customSections(a1)
		s2, _ := customSections(a2)
		where := "non-custom sections"
		for _, k := range customGenesisModules {
			if s1[k] != s2[k] {
				where = k
			}
		}
		e.viol("C08", "export.not_repeatable", "", "exporting the same state twice at height %d gives different bytes (first difference in %s)", h, where)
		return
	}
	secs, err := customSections(a1)
	if err != nil {
		e.viol("C08", "export.bad_json", "", "export is not a JSON object: %v", err)
		return
	}
	// the same state exported by another replica (different configuration, restart history) gives the same custom sections
	for _, r := range e.R[1:] {
		if r.Boot || r.Dead || !r.Up || r.Applied != h || r.inBlock {
			continue
		}
		if ax, _, ok := e.exportFrom(r.Node, fmt.Sprintf("replica %d", r.ID)); ok {
			sx, _ := customSections(ax)
			for _, mod := range customGenesisModules {
				if sx[mod] != secs[mod] {
					e.viol("C09", "replica.export_differs."+mod, "", "replica %d (config %+v, restarts %d) exports a different %s genesis section than the reference replica at height %d", r.ID, r.Cfg, r.Restarts, mod, h)
					return
				}
			}
			e.Stats.Inc("probe.export_compared_across_replicas")
		}
		break
	}
	// C11: in the exported DID registry every active entry's key equals its document id
	var dg didtypes.GenesisState
	if secs["did"] != "" && e.Env.Cdc.UnmarshalJSON([]byte(secs["did"]), &dg) == nil {
		keys := make([]string, 0, len(dg.Documents))
		for k := range dg.Documents {
			keys = append(keys, k)
		}
		sort.Strings(keys)
		for _, k := range keys {
			if d := dg.Documents[k]; d != nil && d.Document != nil && d.Document.Id != "" && d.Document.Id != k {
				e.viol("C11", "did.export_key_id_mismatch", "did:"+k, "genesis export lists under %s a document whose id is %s", k, d.Document.Id)
				return
			}
		}
	}
	for _, mod := range customGenesisModules {
		mb0, ok := app.ModuleBasics[mod]
		if !ok || secs[mod] == "" {
			continue
		}
		mb, ok := mb0.(module.HasGenesisBasics)
		if !ok {
			continue
		}
		var verr error
		_, halt := r0.guard("ValidateGenesis", func() { verr = mb.ValidateGenesis(e.Env.Cdc, e.Env.TxCfg, json.RawMessage(secs[mod])) })
		if halt != nil {
			e.viol("C08", "export.validate_panic."+mod, "", "genesis validation of the exported %s section panicked: %s", mod, halt.Panic)
			return
		}
		if verr != nil {
			e.viol("C08", "export.fails_validation."+mod, "", "the exported %s section of a reachable state fails the module's own genesis validation: %v", mod, verr)
			return
		}
	}
	// throw-away import: state, queries and second-generation export
	e.bootCount++
	tmp := NewNode(100+e.bootCount, e.Env, NodeCfg{}, e.Scratch)
	if !e.importInto(tmp, a1, vals, h) {
		return
	}
	defer func() { tmp.App = nil }()
	ex := ExtractState(tmp.DeliverStores())
	// a long-lived replica that follows the chain from the export
	follow := func() {
		if st.Replica >= 0 && len(e.R) < 6 && !e.stop {
			nr := NewNode(len(e.R), e.Env, NodeCfg{}, e.Scratch)
			if e.importInto(nr, a1, vals, h) {
				e.R = append(e.R, &Replica{Node: nr, Boot: true, FirstHeight: h + 1, Applied: h})
			}
		}
	}
	want0 := e.Model.Flatten()
	if d := DiffFlat(want0, ex.Flat, "", 4); len(d) > 0 {
		e.viol(e.importPropAll(want0, ex.Flat, d), "import.state_differs", "", "state after importing the export of height %d differs from the exported chain: %s", h, strings.Join(d, " ; "))
		// when this difference belongs to another property than the one being decided, the imported chain still follows
		// the original one: what it then does with the transactions to come is judged under the property they belong to
		follow()
		return
	}
	for _, p := range ex.Problems {
		e.viol("C08", "import."+p.Class, p.Entity, "after import: %s", p.Detail)
		return
	}
	// one empty block so that the imported state is committed and can be queried / exported
	empty := &BlockRec{B: &Block{Height: h + 1, Time: e.Now.Add(time.Second)}}
	out := e.applyBlock(tmp, empty, applyOpts{NoOracle: true, Tag: "imported chain"})
	if out.Halt != nil || !out.Committed {
		what := "not committed"
		if out.Halt != nil {
			what = out.Halt.Error() + " [" + out.Halt.Stack + "]"
		}
		e.viol("C08", "import.first_block_halts", "", "the chain initialised from the export of height %d cannot process its first block: %s", h, what)
		return
	}
	rec := e.at(h)
	if rec.Panel != nil {
		got, bad := tmp.RunPanel(rec.Panel, 0)
		if bad != nil {
			e.viol("C17", "panic.query", "", "imported chain: query answered with a panic: %s", bad.Brief())
			return
		}
		if got != rec.PanelH {
			e.viol("C08", "import.query_answers_differ", "", "custom queries answer differently on the chain initialised from the export of height %d", h)
			return
		}
	}
	tr := &Replica{Node: tmp, Boot: true, FirstHeight: h + 1, Applied: h + 1}
	e.querySweep(tr, e.Model, 0, true, h)
	if e.stop {
		return
	}
	b1, _, ok := e.exportFrom(tmp, "imported chain")
	if !ok {
		return
	}
	s2, _ := customSections(b1)
	for _, mod := range customGenesisModules {
		if s2[mod] != secs[mod] {
			e.viol("C08", "export.second_generation_differs."+mod, "", "the %s section exported from the imported chain differs from the original export (height %d): %s  VS  %s", mod, h, trunc(secs[mod], 300), trunc(s2[mod], 300))
			return
		}
	}
	e.Stats.Inc("probe.export_import_roundtrip")
	if Keyed(e.S.Seed, "zero-height", uint64(h)).Chance(0.5) {
		e.zeroHeightExport(r0, secs, vals, h)
	}
	follow()
}

// zeroHeightExport: the other way an operator exports a chain ("export --for-zero-height": staking/distribution state is
// reset for a restart at height 0/1). It rewrites state of SDK modules in the exporting process, so it runs on a scratch
// process over a copy of the reference replica's disk. The custom sections must equal those of the plain export, and a
// fresh chain must start from the result with exactly the custom-module state of the exported one.
func (e *Exec) zeroHeightExport(r0 *Replica, secs map[string]string, vals []abci.ValidatorUpdate, h int64) {
	scratchCtr++
	sn := &Node{ID: 3000 + scratchCtr, Env: e.Env, DB: r0.DB.Clone()}
	sn.Home = filepath.Join(e.Scratch, fmt.Sprintf("zeroexp%d", scratchCtr))
	_ = os.MkdirAll(filepath.Join(sn.Home, "data"), 0o755)
	if err := sn.Start(); err != nil {
		return // restarts on the reference replica's disk are C10's business
	}
	defer func() { sn.App = nil }()
	var appState []byte
	var err error
	_, halt := sn.guard("ExportZeroHeight", func() {
		exp, er := sn.App.ExportAppStateAndValidators(true, nil, nil)
		appState, err = exp.AppState, er
	})
	if halt != nil {
		e.viol("C08", "export.zero_height_panic", "", "exporting genesis for zero height at height %d panicked: %s [%s]", h, halt.Panic, halt.Stack)
		return
	}
	if err != nil {
		e.viol("C08", "export.zero_height_error", "", "exporting genesis for zero height at height %d failed: %v", h, err)
		return
	}
	e.Stats.Inc("probe.export_zero_height")
	s0, _ := customSections(appState)
	for _, mod := range customGenesisModules {
		if s0[mod] != secs[mod] {
			prop := "C08"
			switch {
			case mod == "did" && (e.Prop == "C04" || e.Prop == "C05"), mod == "aol" && (e.Prop == "C01" || e.Prop == "C13"), mod == "pnft" && e.Prop == "C12":
				// sequences, tombstones, records, counters and tokens "across export/import" are that property's own words
				prop = e.Prop
			}
			e.viol(prop, "export.zero_height_differs."+mod, "", "the %s section of the zero-height export differs from the plain export of the same state (height %d): %s  VS  %s", mod, h, trunc(s0[mod], 300), trunc(secs[mod], 300))
			return
		}
	}
	tmp := NewNode(4000+scratchCtr, e.Env, NodeCfg{}, e.Scratch)
	if err := tmp.Start(); err != nil {
		return
	}
	defer func() { tmp.App = nil }()
	tmp.curHdr = &Block{Height: 1, Time: e.Now}
	_, halt = tmp.guard("InitChain", func() {
		cp := consensusParams()
		if e.exportedCP != nil {
			cp = e.exportedCP
		}
		tmp.App.InitChain(abci.RequestInitChain{ChainId: ChainID, ConsensusParams: cp, AppStateBytes: appState, Time: e.Now, InitialHeight: 1, Validators: vals})
	})
	if halt != nil {
		e.viol("C08", "import.zero_height_init_panic", "", "initialising a fresh chain from the zero-height export of height %d panicked: %s [%s]", h, halt.Panic, halt.Stack)
		return
	}
	ex := ExtractState(tmp.DeliverStores())
	if d := DiffFlat(e.Model.Flatten(), ex.Flat, "", 4); len(d) > 0 {
		e.viol(e.importPropAll(e.Model.Flatten(), ex.Flat, d), "import.state_differs", "", "state after importing the zero-height export of height %d differs from the exported chain: %s", h, strings.Join(d, " ; "))
	}
}

// importProp attributes an export/import difference: to C08 in general, and to the property that names
// export/import for that kind of entity (records: C01, DID tombstones: C05) when that property is being checked.
// keyProbe: every item of a listing as the starting key of a page, in both directions. The keys are taken from the
// listing itself (next_key of single-item pages); a page that starts at the key of item j must return item j and what
// follows it (forward) or item j and what precedes it (reverse), and must never panic - whichever item it is (the
// first, the last, the only one).
func (e *Exec) keyProbe(fetch func(*query.PageRequest) ([]string, *query.PageResponse, *QRes), rng *PRNG, prop, what, where string) bool {
	var seq []string
	var keys [][]byte // keys[j] = key of item j (unknown for j = 0)
	var key []byte
	keys = append(keys, nil)
	for len(seq) < 400 {
		got, pr, bad := fetch(&query.PageRequest{Key: key, Limit: 1})
		if bad != nil || len(got) != 1 {
			break
		}
		seq = append(seq, got[0])
		if pr == nil || len(pr.NextKey) == 0 {
			break
		}
		key = pr.NextKey
		keys = append(keys, key)
	}
	if len(seq) < 2 {
		return true
	}
	e.Stats.Inc("probe.paging.key_probe")
	js := []int{1, len(seq) - 1, 1 + rng.Intn(len(seq)-1)}
	for _, j := range js {
		if j >= len(keys) {
			continue
		}
		for _, rev := range []bool{true, false} {
			got, _, bad := fetch(&query.PageRequest{Key: keys[j], Limit: 1000, Reverse: rev})
			if bad != nil {
				if bad.IsPanic() {
					e.viol("C17", "panic.query", what, "%s with key = the key of item %d of %d, reverse=%v panicked: %s", where, j, len(seq), rev, bad.Brief())
				} else if rev && j == len(seq)-1 {
					// cosmos-sdk v0.47.12's paginator cannot start a reverse page at the greatest key (its getIterator steps past
					// the end and panics); the application turns that into an error (fix 83c279a6). An error is accepted here,
					// a panic is not.
					e.Stats.Inc("probe.paging.reverse_from_greatest_key_refused")
					continue
				} else {
					e.viol(prop, "listing.key_start.error", what, "%s with key = the key of item %d of %d, reverse=%v failed: %s", where, j, len(seq), rev, bad.Brief())
				}
				return false
			}
			var want []string
			if rev {
				for i := j; i >= 0; i-- {
					want = append(want, seq[i])
				}
			} else {
				want = append(want, seq[j:]...)
			}
			if strings.Join(got, "\x1f") != strings.Join(want, "\x1f") {
				e.viol(prop, "listing.key_start.mismatch", what, "%s with key = the key of item %d of %d, reverse=%v returned %d items %v; single-item forward paging gives %v", where, j, len(seq), rev, len(got), trunc(fmt.Sprint(got), 300), trunc(fmt.Sprint(want), 300))
				return false
			}
		}
	}
	return true
}

// importPropAll: the difference is attributed by its first few lines; when those do not name the property being decided,
// every differing entry is looked at (a dropped tombstone may come after a hundred dropped documents).
func (e *Exec) importPropAll(want, got map[string]string, shown []string) string {
	for _, l := range shown {
		if p := e.importProp(l); p != "C08" {
			return p
		}
	}
	for _, l := range DiffFlat(want, got, "", 100000) {
		if p := e.importProp(l); p != "C08" {
			return p
		}
	}
	return "C08"
}

func (e *Exec) importProp(diffLine string) string {
	switch {
	case (strings.Contains(diffLine, "aol/record/") || strings.Contains(diffLine, "aol/topic/")) && e.Prop == "C01":
		return "C01" // records, or the record counter the next offset is taken from"
	case strings.Contains(diffLine, " did/") && strings.Contains(diffLine, "tomb") && e.Prop == "C05":
		return "C05"
	case (strings.Contains(diffLine, "aol/topic/") || strings.Contains(diffLine, "aol/owner/")) && e.Prop == "C13":
		return "C13" // the counters no longer equal the real contents
	case strings.Contains(diffLine, "aol/writer/") && e.Prop == "C02":
		return "C02" // the writer list changed without any transaction of the owner
	case strings.Contains(diffLine, "pnft/token/") && strings.Contains(diffLine, "differs") && e.Prop == "C06":
		return "C06" // a token changed (owner) without any transfer having been signed
	case strings.Contains(diffLine, "pnft/token/") && e.Prop == "C12":
		return "C12" // a token's recorded fields changed, or a token appeared or vanished, without any transaction
	}
	return "C08"
}

func (e *Exec) importInto(n *Node, appState []byte, vals []abci.ValidatorUpdate, h int64) bool {
	if err := n.Start(); err != nil {
		e.viol("C08", "import.start_failed", "", "fresh node cannot start: %v", err)
		return false
	}
	n.curHdr = &Block{Height: h + 1, Time: e.Now}
	_, halt := n.guard("InitChain", func() {
		cp := consensusParams()
		if e.exportedCP != nil {
			cp = e.exportedCP
		}
		n.App.InitChain(abci.RequestInitChain{ChainId: ChainID, ConsensusParams: cp, AppStateBytes: appState, Time: e.Now, InitialHeight: h + 1, Validators: vals})
	})
	if halt != nil {
		e.viol("C08", "import.init_panic", "", "initialising a fresh chain from the export of height %d panicked: %s [%s]", h, halt.Panic, halt.Stack)
		return false
	}
	return true
}

// ---------------------------------------------------------------------------------------------
// epilogue (bounded progress once faults stop) and final checks

func (e *Exec) epilogue() {
	for _, r := range e.R[1:] {
		r.LagUntil = 0
		r.Crash = nil
	}
	e.Trace.Ev("epilogue: faults stop")
	e.inEpilogue = true
	for i := 0; i < 3 && !e.stop; i++ {
		h := e.head() + 1
		a := e.Env.Accs[i%3]
		id0 := 900000 + int(h)*10
		steps := []Step{
			{K: "tx", ID: id0 + 1, Tx: &TxSpec{Msgs: []MsgSpec{{T: "aol.CreateTopic", F: map[string]string{"topic": fmt.Sprintf("epilogue-%d", h), "desc": "progress", "owner": a.Addr.String()}}}, Note: "epilogue"}},
			{K: "tx", ID: id0 + 2, Tx: &TxSpec{Msgs: []MsgSpec{{T: "pnft.CreateDenom", F: map[string]string{"id": fmt.Sprintf("epilogue-%d", h), "name": "n", "symbol": "s", "creator": a.Addr.String()}}}, Note: "epilogue"}},
		}
		for j := range steps {
			e.orderCtr++
			e.Mempool = append(e.Mempool, &pendingTx{ID: steps[j].ID, Spec: steps[j].Tx, Due: h, Order: e.orderCtr})
		}
		before := e.Stats.C["tx.accepted"]
		e.produceBlock(&Step{K: "block", DtNs: int64(5 * time.Second)})
		if e.stop {
			return
		}
		if e.Stats.C["tx.accepted"]-before < 2 && len(e.tainted) == 0 {
			e.Stats.Inc("epilogue.tx_not_accepted")
		}
	}
	for _, r := range e.R[1:] {
		if r.Dead {
			continue
		}
		e.feedReplica(r)
		if e.stop {
			return
		}
		if r.Applied != e.head() {
			e.viol("C10", "progress.replica_stalled", "", "replica %d stays at height %d while the chain is at %d after all faults stopped", r.ID, r.Applied, e.head())
			return
		}
	}
	e.Stats.Inc("epilogue.done")
}

func (e *Exec) finalChecks() {
	r0 := e.R[0]
	e.querySweep(r0, e.Model, 0, true, e.head())
	if e.stop {
		return
	}
	// repeated queries at fixed heights return the recorded answers (C20)
	rng := Keyed(e.S.Seed, "final")
	for i := 0; i < 4 && len(e.Blocks) >= 2; i++ {
		hh := int64(rng.Range(int(e.H0)+1, int(e.head())-1))
		old := e.at(hh)
		if old == nil || old.Panel == nil {
			continue
		}
		got, bad := r0.RunPanel(old.Panel, hh)
		if bad != nil {
			e.viol("C17", "panic.query", "", "historical query answered with a panic: %s", bad.Brief())
			return
		}
		e.Stats.Inc("q.panel.historical_final")
		if got != old.PanelH {
			e.viol("C20", "snapshot.historical_changed", "", "queries at fixed height %d no longer return the answers recorded right after Commit(%d) (chain now at %d)", hh, hh, e.head())
			return
		}
	}
	for _, r := range e.R[1:] {
		if r.Dead || !r.Up || e.stop {
			continue
		}
		if r.Boot && r.Applied >= r.FirstHeight {
			e.querySweep(r, e.Model, 0, true, e.head())
			if e.stop {
				return
			}
			// second-generation consistency: custom sections exported from the bootstrapped replica equal the reference's
			a, _, ok := e.exportFrom(r.Node, fmt.Sprintf("bootstrapped replica %d", r.ID))
			b, _, ok2 := e.exportFrom(r0.Node, "reference replica")
			if ok && ok2 {
				sa, _ := customSections(a)
				sb, _ := customSections(b)
				for _, mod := range customGenesisModules {
					if sa[mod] != sb[mod] {
						e.viol("C08", "export.bootstrapped_differs."+mod, "", "at height %d the %s section exported by the replica bootstrapped from an export differs from the reference replica's", e.head(), mod)
						return
					}
				}
			}
		}
	}
	e.upgradeChecks()
	if e.stop {
		return
	}
	e.crashEnumeration()
}

func (e *Exec) skipsUpgradeAt(h int64) bool {
	for _, s := range e.S.Config.SkipUpgradeHeights {
		if s == h {
			return true
		}
	}
	return false
}

func (e *Exec) upgradeChecks() {
	for _, b := range e.Blocks {
		if b.Plan == nil || b.Plan.Height > e.head() {
			continue
		}
		if e.skipsUpgradeAt(b.Plan.Height) {
			e.Stats.Inc("probe.upgrade.skipped")
		} else {
			e.Stats.Inc("probe.upgrade.executed")
		}
		for _, r := range e.R {
			if r.Dead || !r.Up || (r.Boot && (r.FirstHeight >= b.Plan.Height || b.PlanViaGov)) {
				// a chain started from an export does not inherit a plan that governance had already put in place
				continue // a chain bootstrapped from a later export does not carry the upgrade bookkeeping
			}
			ctx := r.App.NewContext(true, e.Env.Header(e.at(e.head()).B))
			if e.skipsUpgradeAt(b.Plan.Height) {
				// the operators agreed to skip this plan: nothing is executed, the plan is gone, the chain goes on
				if dh := r.App.UpgradeKeeper.GetDoneHeight(ctx, b.Plan.Name); dh != 0 {
					e.viol("C19", "upgrade.skipped_but_done", "", "replica %d: upgrade %s at height %d was to be skipped (--unsafe-skip-upgrades) but is recorded as done at height %d", r.ID, b.Plan.Name, b.Plan.Height, dh)
					return
				}
				if p, has := r.App.UpgradeKeeper.GetUpgradePlan(ctx); has && p.Height == b.Plan.Height {
					e.viol("C19", "upgrade.skipped_plan_left", "", "replica %d: the skipped plan %s for height %d is still scheduled", r.ID, b.Plan.Name, b.Plan.Height)
					return
				}
				continue
			}
			if dh := r.App.UpgradeKeeper.GetDoneHeight(ctx, b.Plan.Name); dh != b.Plan.Height {
				e.viol("C19", "upgrade.not_recorded", "", "replica %d: upgrade %s is recorded as done at height %d, the plan height is %d", r.ID, b.Plan.Name, dh, b.Plan.Height)
				return
			}
			vm := r.App.UpgradeKeeper.GetModuleVersionMap(ctx)
			want := r.App.ModuleManager.GetVersionMap()
			for name, v := range want {
				if vm[name] != v {
					e.viol("C19", "upgrade.version_map", "", "replica %d: after upgrade %s module %s is recorded at version %d, the binary has %d", r.ID, b.Plan.Name, name, vm[name], v)
					return
				}
			}
		}
		// custom data exactly what it was before the upgrade block
		pre := e.at(b.Plan.Height - 1)
		post := e.at(b.Plan.Height)
		if pre != nil && post != nil && len(post.B.Txs) == 0 && pre.FlatHash != post.FlatHash {
			e.viol("C19", "upgrade.custom_data_changed", "", "custom-module state changed across the upgrade block %d", b.Plan.Height)
			return
		}
	}
}

var _ = sdk.AccAddress{}
