#!/bin/bash
# mutcheck.sh <patch-file|-R:commit> <budget_s> <PROP> [PROP...]
# Tests the machinery against a seeded change WITHOUT touching /repo: scratch worktree of /repo's HEAD,
# apply the patch (or reverse-apply a fix commit with -R:<sha>), build the simulator against it, run the
# quick checks of the listed properties, clean up. Outputs go to a scratch directory, not to /verif.
set -u
export GOFLAGS=-mod=mod GOPROXY=off GOSUMDB=off GOTOOLCHAIN=local
PATCH="$1"; BUDGET="$2"; shift 2
WT=$(mktemp -d /tmp/mutwt.XXXXXX)
git -C /repo worktree add --detach "$WT/repo" HEAD >/dev/null 2>&1 || { echo "worktree failed"; exit 2; }
cleanup() { git -C /repo worktree remove --force "$WT/repo" >/dev/null 2>&1; rm -rf "$WT"; }
trap cleanup EXIT
case "$PATCH" in
  -R:*) git -C /repo show "${PATCH#-R:}" | git -C "$WT/repo" apply -R || { echo "reverse apply failed"; exit 2; } ;;
  *) git -C "$WT/repo" apply "$PATCH" || { echo "apply failed"; exit 2; } ;;
esac
PANASIM_REPO="$WT/repo" PANASIM_OUT="$WT/bin" /verif/build.sh || exit 2
rc=0
for P in "$@"; do
  out=$(PANASIM_SKIP_RACE=1 PANASIM_OUTPUT_DIR="$WT/out" VERIF_QUICK_S="$BUDGET" "$WT/bin/panasim" check "$P" quick 2>&1)
  code=$?
  echo "--- $P exit=$code"
  echo "$out" | grep -E "^violation:|^VIOLATION|^runs=|MACHINERY" | cut -c1-500
  [ $code -ne 0 ] && rc=1
done
exit $rc
