#!/bin/bash
# mutreplay.sh <patch-file> <budget_s> <PROP>
# Like mutcheck.sh, and then replays every replay file the check wrote, each in a fresh process built against the
# same scratch worktree: the replay must exit 1 and print the same VIOLATION class. Leaves nothing behind.
set -u
export GOFLAGS=-mod=mod GOPROXY=off GOSUMDB=off GOTOOLCHAIN=local
PATCH="$1"; BUDGET="$2"; P="$3"
WT=$(mktemp -d /tmp/mutwt.XXXXXX)
git -C /repo worktree add --detach "$WT/repo" HEAD >/dev/null 2>&1 || { echo "worktree failed"; exit 2; }
cleanup() { git -C /repo worktree remove --force "$WT/repo" >/dev/null 2>&1; rm -rf "$WT"; }
trap cleanup EXIT
git -C "$WT/repo" apply "$PATCH" || { echo "apply failed"; exit 2; }
PANASIM_REPO="$WT/repo" PANASIM_OUT="$WT/bin" /verif/build.sh || exit 2
out=$(PANASIM_SKIP_RACE=1 PANASIM_OUTPUT_DIR="$WT/out" VERIF_QUICK_S="$BUDGET" "$WT/bin/panasim" check "$P" quick 2>&1)
echo "$out" | grep -E "^VIOLATION|^runs=" | cut -c1-300
rc=0
for f in $(echo "$out" | grep -oE "replay=[^ ]+" | cut -d= -f2); do
  r=$(PANASIM_OUTPUT_DIR="$WT/out2" "$WT/bin/panasim" replay "$f" 2>&1); code=$?
  cls=$(basename "$f" .json)
  echo "replay $cls -> exit=$code $(echo "$r" | grep -E "^VIOLATION|REPRODUCED|not reproduced|NOT" | head -2 | cut -c1-200 | tr '\n' ' ')"
  [ $code -ne 1 ] && rc=1
done
exit $rc
